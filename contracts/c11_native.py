"""C11 bounded tier: human-readable message text round trip (plain / beautified / replacement tables) and the safe-mode clause.

Two drivers:

* bounded_text_roundtrip - template-directed messages are encoded, decoded from the wire, rendered with
  HumanMessageSerializer.to_human_string (beautify off/on x replacement tables x with/without template annotations), parsed back with
  from_human_string(safe=True) and re-encoded; the zero-decoded datagram body must be the one we started from.
  Variable/Fixed fields carry a catalogue of hostile payloads (multi-line, quote-laden, comment/continuation look-alikes, non-UTF8, NUL-bearing,
  long enough to make the pretty printer wrap), fields with a registered subfield serializer carry payloads the serializer accepts (mined in
  the context of the generated block and reduced to fixed points of the subfield codec, so that a failure is a failure of the text layer
  and not of the subfield codec, which is C09's/C10's subject).
* bounded_safe_mode - text-level fuzz: lines of rendered messages are rewritten with every operator of the family =[|$]{1,4} that carries the
  eval flag (and with the plain/packed operators) and expression-looking values; parsing in safe mode may reject or accept the text but must not
  evaluate anything (observed through side-effect probes, a wrapper around the eval entry points and the interpreter's audit events).
"""
import ast
import itertools
import logging
import math
import os
import random
import struct
import sys
import uuid
import zlib

from contracts import msggen

# ---------------------------------------------------------------------------------------------------------------------------
# payload catalogue for Variable / Fixed fields
# ---------------------------------------------------------------------------------------------------------------------------
TEXTS = [
    "", "hello", "<1,2,3>", "<a", "<1.0, 2.0, 3.0>", "a-b-c", "1f4ffb55-022e-49fb-8c63-6f159aed9b24", "[[AGENT_ID]]", "[[NOPE]]", "# comment", "x \\", "\\",
    "a\\\nb", "'", '"', "'\"", "'''", '"""', "it's \"quoted\"", "l1\nl2\nl3\nl4\nl5\nl6", "l1\nl2\nl3\nl4\nl5\nl6\n", "\n\n\n\n\n", "\n\n\n\n\nx", "\n\n\n\n",
    "a\nb\n\nc # not a comment \\\n'd\"\n\ne\\", "a\x00b", "\x00a", "a\x00\x00b", "\u00e9\u4e2d\U0001f600", "\ud7ff", "\r\n\r\n\r\n\r\n\r\n\r\n", "a\rb",
    "\x0b\x0c\x1c\x1d\x1e\x85\u2028\u2029 x", "l1\x0bl2\n\n\n\n\n\nx", " \n\n\n\n\n\n", "a\x1c\n\n\n\n\n\nb", "word " * 40, "x" * 250,
    "line with spaces 3\n" * 8, " leading", "trailing ", "  ", "\t", "=| 1", "x =$ 1+1\ny =$| 2\n", "[Block]\n  a = 1", "\\\n\\\n\\\n\\\n\\\n\\",
    "a \\\n\n\n\n\n\n", "\n \\\n\n\n\n\n", "a\n#b\n#c\n\n\n\n#d", "a\n  \n \n\t\n\n\nb  ", "q' \\\n\" \\\n\n\n\n\n", "__import__('os').system('true')", "b'bytes'",
    "None", "True", "1", "1.5", "(1, 2)", "OUT ChatFromViewer", "  Message = 'x'", "\\n\\n\\n\\n\\n\\n", "a\n" * 4 + "b", "a\n" * 5 + "b", "a\n" * 5,
    "tab\there\nnl\n" * 3, "\\'", "\\\"", "'\\", "\"\\", "a'b\"c\\d\ne'f\"g\\h\ni\nj\nk\nl", "\ufeffbom", "\x7f\x80\x9f\xa0",
]
RAWS = [b"\xff\xfe", b"\xff\n\n\n\n\n\xfe", b"\xc3", b"\xc3\x00", bytes(range(256))[:254], b"\n" * 7 + b"\xff\x00", b"\x0c\n\n\n\n\n\n", b"a\r\n" * 6,
        b"l1\nl2\nl3\nl4\nl5\nl6", b"l1\nl2\nl3\nl4\nl5\nl6\n", b"\x00", b"\x00\x00", b"\x00\x00\x00", b"'", b'"', b"\\", b"'\"\\" * 40, b"\x80" * 101,
        b"\n" * 5, b"\n" * 4, b"\n" * 5 + b"\\", b"#\n#\n#\n#\n#\n#", b"a b " * 30]
ALPHABET = "abcXYZ 019_-\n\n\n\t\"'\\#=|$[]<>,()\u00e9\u4e2d\x00\r"


def _line(rng):
    k = rng.random()
    if k < 0.15:
        return ""
    if k < 0.3:
        return rng.choice(["\\", "# x", "'", '"', " \\", "x = 1", "[B]", "  ", "a \\", "\t", "=$ 1", "'''", "\\\\"])
    return "".join(rng.choice(ALPHABET.replace("\n", "")) for _ in range(rng.choice([1, 3, 8, 20, 60])))


def gen_text(rng):
    r = rng.random()
    if r < 0.35:
        return rng.choice(TEXTS)
    if r < 0.65:
        n = rng.choice([1, 3, 4, 5, 5, 6, 9, 14])
        s = "\n".join(_line(rng) for _ in range(n + 1))
        if rng.random() < 0.4:
            s += "\n"
        return s
    if r < 0.85:
        return "".join(rng.choice(ALPHABET) for _ in range(rng.choice([0, 1, 2, 5, 17, 60])))
    return " ".join("".join(rng.choice("abcdefg'\"\\") for _ in range(rng.randint(1, 9))) for _ in range(rng.choice([12, 25, 40])))


def gen_var_bytes(rng, maxlen):
    """wire content of a Variable field"""
    cap = min(maxlen, 400)
    r = rng.random()
    if r < 0.6:
        b = gen_text(rng).encode("utf8", "surrogatepass")
        term = rng.random()
        if term < 0.6:
            b = b[:cap - 1] + b"\x00"           # decoded as str (when the field is text-named and the bytes are UTF-8)
        elif term < 0.85:
            b = b[:cap]                          # no terminator: bytes-ish
        elif term < 0.92:
            b = b[:cap - 2] + b"\x00\x00"
        else:
            mid = len(b) // 2
            b = (b[:mid] + b"\x00" + b[mid:])[:cap - 1] + b"\x00"
        return b
    if r < 0.75:
        return rng.choice(RAWS)[:cap]
    ln = min(cap, rng.choice([0, 1, 2, 4, 5, 31, 99, 100, 101, 130, 200, 255]))
    style = rng.random()
    if style < 0.6:
        return bytes(rng.getrandbits(8) for _ in range(ln))
    if style < 0.8:
        return bytes(rng.choice(b"\n\n\n'\"\\ab \x00\xff") for _ in range(ln))
    return bytes(rng.choice((0, 0, 0, 1, 255)) for _ in range(ln))


def gen_fixed_bytes(rng, size):
    style = rng.random()
    if style < 0.5:
        return bytes(rng.getrandbits(8) for _ in range(size))
    if style < 0.7:
        return bytes(size)
    return bytes(rng.choice(b"\n\n'\"\\a \x00\xff") for _ in range(size))


# ---------------------------------------------------------------------------------------------------------------------------
# subfield payloads: mined in the context of the generated block
# ---------------------------------------------------------------------------------------------------------------------------
def _force(d):
    return getattr(d, "__wrapped__", d)


def _finite(d):
    if isinstance(d, float):
        return math.isfinite(d)
    if isinstance(d, (list, tuple)):
        return all(_finite(x) for x in d)
    if isinstance(d, dict):
        return all(_finite(k) and _finite(v) for k, v in d.items())
    return True


def _pod_fixed_point(ser, block, p):
    """p if the subfield codec, in the plain-data form the formatter uses, maps p to itself; the canonical re-encoding if that is a fixed point;
    None when the payload is not accepted / cannot be made canonical / carries non-finite floats (those are outside this driver's lane)."""
    import hippolyzer.lib.base.serialization as se
    cur = p
    for _ in range(3):
        try:
            d = _force(ser.deserialize(block, cur, pod=True))
            if d is se.UNSERIALIZABLE:
                return None
            repr(d)
            if not _finite(d):
                return None
            p2 = ser.serialize(block, d)
        except Exception:  # noqa
            return None
        if isinstance(cur, (bytes, bytearray)):
            p2 = bytes(p2)
        if p2 == cur and type(p2) is type(cur) or (isinstance(cur, int) and isinstance(p2, int) and int(p2) == int(cur)):
            return cur
        cur = int(p2) if isinstance(p2, int) and not isinstance(p2, bool) else p2
    return None


SEED_PAYLOADS = {
    # var name -> hand-written wire payloads of that field's sub-format (seeds for mutation; only the accepted ones are used)
    "NameValue": [b"FirstName STRING RW SV Test\nLastName STRING RW SV User\x00", b"Title STRING RW SV \x00", b"AttachItemID STRING RW SV 1f4ffb55-022e-49fb-8c63-6f159aed9b24\x00",
                  b"FirstName STRING RW SV a'b\"c\\d\nLastName STRING RW SV \nT STRING RW SV x\nU STRING RW SV y\nV STRING RW SV z\nW STRING RW SV w\x00", b"\x00", b""],
    "ExtraParams": [b"\x00", b"\x01\x10\x00\x10\x00\x00\x00" + bytes(16), b"\x01\x20\x00\x10\x00\x00\x00" + bytes(range(16)), b"\x01\x30\x00\x11\x00\x00\x00" + bytes(range(17)),
                    b"\x02\x10\x00\x10\x00\x00\x00" + bytes(16) + b"\x20\x00\x10\x00\x00\x00" + bytes(16), b"\x01\x40\x00\x11\x00\x00\x00" + bytes(17),
                    b"\x01\x60\x00\x04\x00\x00\x00" + bytes(4), b"\x01\x99\x00\x03\x00\x00\x00abc"],
    "TextureAnim": [b"", bytes(16), b"\x01\x00\x02\x02" + struct.pack("<fff", 0.0, 4.0, 1.5), b"\xff\xff\x04\x04" + struct.pack("<fff", 1.0, 0.0, -2.0)],
    "PSBlock": [b"", bytes(86), bytes(range(86))],
    "Bitmap": [bytes(512), bytes([0xAA]) * 512, bytes(range(256)) * 2],
    "Throttles": [struct.pack("<7f", 1.0, 2.0, 3.0, 4.5, 0.0, -1.0, 1e6)],
}


def _compressed_update_payload(rng):
    """wire layout of ObjectUpdateCompressed.ObjectData.Data, written by hand (the serializer decides whether it is accepted)"""
    def cstr():
        return rng.choice([b"", b"hover text", b"a'b\"c\\d", b"l1\nl2\nl3\nl4\nl5\nl6", "\u00e9\u4e2d".encode("utf8")]) + b"\x00"

    def f(*xs):
        return struct.pack(f"<{len(xs)}f", *xs)
    flags = 0
    for bit in (1, 2, 4, 8, 16, 32, 64, 128, 256, 512):
        if rng.random() < 0.3:
            flags |= bit
    if flags & 2:
        flags &= ~1
    buf = bytes(rng.getrandbits(8) for _ in range(16)) + struct.pack("<I", rng.getrandbits(32))
    buf += bytes([rng.choice([9, 47, 95, 111, 143, 255]), rng.getrandbits(8)]) + struct.pack("<I", rng.getrandbits(32))
    buf += bytes([rng.randrange(8), rng.randrange(9)])
    buf += f(0.5, 1.0, rng.choice([0.25, 10.0, 64.0])) + f(128.0, rng.choice([0.0, 255.5, -3.25]), 20.0) + rng.choice([f(0.0, 0.0, 0.0), f(0.5, 0.5, 0.5), f(1.0, 0.0, 0.0), f(0.0, -0.5, 0.5)])
    buf += struct.pack("<I", flags) + rng.choice([bytes(16), bytes(rng.getrandbits(8) for _ in range(16))])
    if flags & 128:
        buf += f(0.0, 0.0, rng.choice([1.0, -0.125]))
    if flags & 32:
        buf += struct.pack("<I", rng.getrandbits(32))
    if flags & 2:
        buf += bytes([rng.getrandbits(8)])
    if flags & 1:
        n = rng.choice([0, 1, 5])
        buf += struct.pack("<I", n) + bytes(rng.getrandbits(8) for _ in range(n))
    if flags & 4:
        buf += cstr() + bytes(rng.getrandbits(8) for _ in range(4))
    if flags & 512:
        buf += cstr()
    if flags & 8:
        buf += bytes(86)
    buf += rng.choice([b"\x00", b"\x01\x20\x00\x10\x00\x00\x00" + bytes(range(16))])
    if flags & 16:
        buf += bytes(rng.getrandbits(8) for _ in range(16)) + f(rng.choice([0.0, 1.0, 0.5])) + bytes([rng.randrange(64)]) + f(rng.choice([0.0, 20.0]))
    if flags & 256:
        buf += rng.choice([b"FirstName STRING RW SV Test\nLastName STRING RW SV User", b"Title STRING RW SV x"]) + b"\x00"
    buf += bytes(rng.getrandbits(8) for _ in range(23))
    tes = _te_payloads(rng, 1) or [b""]
    buf += struct.pack("<I", len(tes[0])) + tes[0]
    if flags & 64:
        buf += struct.pack("<I", 16) + b"\x01\x00\x02\x02" + f(0.0, 4.0, 1.5)
    return buf


def _te_payloads(rng, n):
    try:
        from contracts.c09_native import te_payloads
        return te_payloads(rng, n)
    except Exception:  # noqa
        return []


def mine_payload(ser, block, var, msg_name, tv, rng, tries):
    """one payload for block[var] that the subfield serializer accepts in the context of `block` (other vars already set) and that is a fixed
    point of the subfield codec; None if none of the candidates qualifies"""
    import hippolyzer.lib.base.serialization as se
    maxlen = 255 if tv.size == 1 else 65535
    sizes = []
    for attr in ("TEMPLATE",):
        tm = getattr(ser, attr, None)
        try:
            if tm is not None and tm.calc_size() is not None:
                sizes.append(tm.calc_size())
        except Exception:  # noqa
            pass
    tms = getattr(ser, "TEMPLATES", None)
    if isinstance(tms, dict):
        for tm in tms.values():
            try:
                tm = tm.template if isinstance(tm, se.Dataclass) else tm
                if tm is not se.UNSERIALIZABLE and tm.calc_size() is not None:
                    sizes.append(tm.calc_size())
            except Exception:  # noqa
                pass
        if isinstance(ser, type) and issubclass(ser, se.FlagSwitchedSubfieldSerializer):
            try:
                sz = ser._build_template(block[ser.FLAG_FIELD]).calc_size()
                if sz is not None:
                    sizes = [sz]
            except Exception:  # noqa
                pass
    lens = sizes * 3 + [0, 1, 2, 4, 8, 12, 16, 17, 24, 28, 32, 40, 44, 48, 60, 64, 76, 86, 128]
    seeds = list(SEED_PAYLOADS.get(var, []))
    if var == "TextureEntry":
        tes = _te_payloads(rng, 6)
        if "ImprovedTerse" in msg_name:
            tes = [struct.pack("<I", len(t_)) + t_ for t_ in tes]
        seeds += tes
    if (msg_name, var) == ("ObjectUpdateCompressed", "Data"):
        seeds += [_compressed_update_payload(rng) for _ in range(8)]
    enum_field = getattr(ser, "ENUM_FIELD", None)
    if enum_field and isinstance(tms, dict) and enum_field in block.vars and rng.random() < 0.7:
        try:
            block[enum_field] = int(rng.choice(sorted(int(k) for k in tms.keys())))     # a context value the serializer has a sub-format for
        except Exception:  # noqa
            pass
    accepted = []
    for i in range(tries):
        if seeds and (i < len(seeds)):
            p = seeds[i]
        else:
            ln = min(maxlen, rng.choice(lens))
            style = rng.random()
            if style < 0.45:
                p = bytes(rng.getrandbits(8) for _ in range(ln))
            elif style < 0.75:
                p = bytes(rng.choice((0, 0, 0, 1, 63, 255)) for _ in range(ln))
            else:
                p = bytes(ln)
        if len(p) > maxlen:
            continue
        q = _pod_fixed_point(ser, block, p)
        if q is not None and len(q) <= maxlen:
            accepted.append(q)
            if len(accepted) >= 4:
                break
    if not accepted:
        return None
    base = rng.choice(accepted)
    # mutation: keep the structure, vary content bytes
    for _ in range(6):
        if not base:
            break
        m = bytearray(base)
        for _k in range(rng.choice([1, 2, 4])):
            m[rng.randrange(len(m))] = rng.choice([0, 1, 10, 39, 34, 92, 127, 128, 255, rng.getrandbits(8)])
        q = _pod_fixed_point(ser, block, bytes(m))
        if q is not None and len(q) <= maxlen:
            base = q
    return base


# ---------------------------------------------------------------------------------------------------------------------------
# message generation
# ---------------------------------------------------------------------------------------------------------------------------
def _enum_members(ser):
    ad = getattr(ser, "_adapter", None)
    for attr in ("enum_cls", "flag_cls"):
        cls = getattr(ad, attr, None)
        if cls is not None:
            try:
                return [int(m) for m in cls]
            except Exception:  # noqa
                return []
    return []


def gen_block(tmpl, tb, rng, boundary, subfields, stats):
    from hippolyzer.lib.base.message.message import Block
    from hippolyzer.lib.base.message.msgtypes import MsgType
    import hippolyzer.lib.base.serialization as se
    vals = {}
    for tv in tb.variables:
        ser = se.SUBFIELD_SERIALIZERS.get((tmpl.name, tb.name, tv.name)) if subfields else None
        if tv.type == MsgType.MVT_VARIABLE:
            vals[tv.name] = gen_var_bytes(rng, 255 if tv.size == 1 else 65535)
        elif tv.type == MsgType.MVT_FIXED:
            vals[tv.name] = gen_fixed_bytes(rng, tv.size)
        else:
            v = msggen.gen_value(tv, rng, boundary)
            if ser is not None and isinstance(v, int) and rng.random() < 0.5:
                mem = _enum_members(ser)
                if mem:
                    v = rng.choice(mem)
                    if rng.random() < 0.3 and len(mem) > 1:
                        v |= rng.choice(mem)
                    lo_hi = {"MVT_U8": (0, 255), "MVT_S8": (-128, 127), "MVT_U16": (0, 65535), "MVT_S16": (-32768, 32767), "MVT_U32": (0, 2 ** 32 - 1),
                             "MVT_S32": (-2 ** 31, 2 ** 31 - 1), "MVT_U64": (0, 2 ** 64 - 1), "MVT_S64": (-2 ** 63, 2 ** 63 - 1), "MVT_BOOL": (0, 1)}.get(tv.type.name)
                    if lo_hi and not (lo_hi[0] <= v <= lo_hi[1]):
                        v = msggen.gen_value(tv, rng, boundary)
            vals[tv.name] = v
    block = Block(tb.name, **vals)
    block.message_name = tmpl.name
    if subfields:
        for tv in tb.variables:
            ser = se.SUBFIELD_SERIALIZERS.get((tmpl.name, tb.name, tv.name))
            if ser is None or tv.type != MsgType.MVT_VARIABLE or rng.random() < 0.25:
                continue
            p = mine_payload(ser, block, tv.name, tmpl.name, tv, rng, 24)
            stats["mined" if p is not None else "not_mined"] += 1
            if p is not None:
                block[tv.name] = p
                stats.setdefault("mined_fields", set()).add(f"{tmpl.name}.{tb.name}.{tv.name}")
    return block


def gen_message(tmpl, rng, boundary, counts, subfields, stats):
    from hippolyzer.lib.base.message.message import Message
    from hippolyzer.lib.base.message.msgtypes import MsgBlockType
    from hippolyzer.lib.base.network.transport import Direction
    flags = rng.choice([0, 0, 0x40, 0x80, 0xC0, 0x20, 0xE0, 0x10, 0x90, 0x01, 0x4F])
    acks = tuple(rng.randrange(2 ** 32) for _ in range(rng.choice([1, 3]))) if flags & 0x10 else None
    msg = Message(tmpl.name, packet_id=rng.choice([0, 1, 2 ** 32 - 1, rng.randrange(2 ** 32)]), flags=flags, acks=acks,
                  direction=rng.choice([Direction.OUT, Direction.IN]))
    for tb in tmpl.blocks:
        if tb.block_type == MsgBlockType.MBT_SINGLE:
            n = 1
        elif tb.block_type == MsgBlockType.MBT_MULTIPLE:
            n = tb.number
        else:
            n = {"min": 0, "one": 1, "many": rng.choice([4, 9])}.get(counts)
            if n is None:
                n = rng.choice([0, 1, 1, 2, 3])
        msg.create_block_list(tb.name)
        for _ in range(n):
            msg.add_block(gen_block(tmpl, tb, rng, boundary, subfields, stats))
    if rng.random() < 0.15:
        msg.extra = bytes(rng.getrandbits(8) for _ in range(rng.choice([1, 4])))
    return msg


def canonicalize_subfields(msg):
    """make every field that has a subfield serializer a fixed point of that codec (plain-data form), so that what is checked afterwards is the
    text layer alone. Returns False if that cannot be achieved for this message (the case is then discarded, and counted)."""
    import hippolyzer.lib.base.serialization as se
    for _pass in range(3):
        changed = False
        for bname, blist in msg.blocks.items():
            for block in blist:
                for var in list(block.vars.keys()):
                    ser = se.SUBFIELD_SERIALIZERS.get((msg.name, bname, var))
                    if ser is None:
                        continue
                    val = block.vars[var]
                    try:
                        d = _force(ser.deserialize(block, val, pod=True))
                        repr(d)
                    except Exception:  # noqa
                        continue            # the formatter falls back to the raw value
                    if d is se.UNSERIALIZABLE:
                        continue
                    if not _finite(d):
                        return False
                    try:
                        p2 = ser.serialize(block, d)
                    except Exception:  # noqa
                        return False
                    if isinstance(val, (bytes, bytearray)):
                        same = bytes(p2) == bytes(val)
                    else:
                        try:
                            same = (p2 == val) and not (isinstance(val, float) and struct.pack("<d", val) != struct.pack("<d", p2))
                        except Exception:  # noqa
                            same = False
                    if not same:
                        block[var] = p2
                        changed = True
        if not changed:
            return True if _pass == 0 else "changed"
    return False


# ---------------------------------------------------------------------------------------------------------------------------
# round-trip oracle
# ---------------------------------------------------------------------------------------------------------------------------
def _codec():
    from hippolyzer.lib.base.message.udpserializer import UDPMessageSerializer
    from hippolyzer.lib.base.message.udpdeserializer import UDPMessageDeserializer
    from hippolyzer.lib.base.settings import Settings
    s = Settings()
    s.ENABLE_DEFERRED_PACKET_PARSING = False
    return UDPMessageSerializer(), UDPMessageDeserializer(settings=s)


def replacement_tables(msg, rng):
    """(kind, table) pairs modelled on the proxy's buildReplacements()"""
    from hippolyzer.lib.base.datatypes import UUID
    agent = session = code = None
    ad = msg.blocks.get("AgentData")
    if ad:
        agent = ad[0].vars.get("AgentID")
        session = ad[0].vars.get("SessionID")
    for bname, blist in msg.blocks.items():
        for block in blist:
            for var, val in block.vars.items():
                if code is None and ("CircuitCode" in var or ("Code" in var and "Circuit" in bname)) and type(val) is int:
                    code = val
    other = {"SELECTED_LOCAL": 7, "SELECTED_FULL": None, "NULL_KEY": UUID(), "RANDOM_KEY": UUID.random, "REGION_HANDLE": 1099511628032000}
    rnd = lambda: UUID(int=rng.getrandbits(128))  # noqa
    match = dict(other, AGENT_ID=agent if isinstance(agent, uuid.UUID) else rnd(), SESSION_ID=session if isinstance(session, uuid.UUID) else rnd(),
                 CIRCUIT_CODE=code if code is not None else rng.randrange(2 ** 32))
    mismatch = dict(other, AGENT_ID=rnd(), SESSION_ID=rnd(), CIRCUIT_CODE=rng.randrange(2 ** 32))
    partial = {"AGENT_ID": match["AGENT_ID"]}
    return [("none", None), ("empty", {}), ("match", match), ("mismatch", mismatch), ("partial", partial)]


def _table_repr(table):
    return None if table is None else {k: (repr(v) if not callable(v) else "<callable>") for k, v in table.items()}


def order_dependent_fields(msg):
    """fields whose packed (=|) form cannot be re-encoded from the fields that precede them in the block: the packer reads a field that the
    parser has not seen yet. Independent of the text: computed on the decoded message with the registered serializer only."""
    import hippolyzer.lib.base.serialization as se
    from hippolyzer.lib.base.message.message import Block
    out = []
    for bname, blist in msg.blocks.items():
        for idx, block in enumerate(blist):
            names = list(block.vars.keys())
            for i, var in enumerate(names):
                ser = se.SUBFIELD_SERIALIZERS.get((msg.name, bname, var))
                if ser is None:
                    continue
                try:
                    d = _force(ser.deserialize(block, block.vars[var], pod=True))
                    if d is se.UNSERIALIZABLE:
                        continue
                    full = ser.serialize(block, d)
                except Exception:  # noqa
                    continue
                partial = Block(bname)
                partial.message_name = msg.name
                for prev in names[:i]:
                    partial[prev] = block.vars[prev]
                try:
                    dep = ser.serialize(partial, d) != full
                except Exception:  # noqa
                    dep = True
                if dep:
                    out.append((bname, idx, var))
    return out


def _plain_line(var, val):
    if isinstance(val, (uuid.UUID,)):
        return f"  {var} = {val}"
    return f"  {var} = {val!r}"


def _first_difference(a, b):
    if list(a.blocks.keys()) != list(b.blocks.keys()):
        return f"block lists differ: {list(a.blocks.keys())} (counts {[len(v) for v in a.blocks.values()]}) vs {list(b.blocks.keys())}"
    for bn in a.blocks:
        if len(a.blocks[bn]) != len(b.blocks[bn]):
            return f"block {bn}: {len(a.blocks[bn])} vs {len(b.blocks[bn])} instances"
        for i, (ba, bb) in enumerate(zip(a.blocks[bn], b.blocks[bn])):
            for vn in ba.vars:
                if vn not in bb.vars:
                    return f"{bn}[{i}].{vn} missing after parse"
                va, vb = ba.vars[vn], bb.vars[vn]
                if not msggen._veq(va, vb) or (isinstance(va, (bytes, str)) and type(vb) not in (type(va), bytes, str)):
                    return f"{bn}[{i}].{vn}: {va!r:.160} became {vb!r:.160}"
    return "no per-field difference found (encoding-level difference)"


class RoundTrip:
    def __init__(self):
        from hippolyzer.lib.base.message.message_formatting import HumanMessageSerializer
        from hippolyzer.lib.base.message.template_dict import DEFAULT_TEMPLATE_DICT
        self.H = HumanMessageSerializer
        self.ser, self.de = _codec()
        self.td = DEFAULT_TEMPLATE_DICT

    def body(self, msg):
        return msggen.body_of(self.ser, msg)

    def reparse(self, text, table, ref, fill_empty):
        """-> (status, detail, parsed message) ; status in ok / parse-raises / reencode-raises / body-differs"""
        try:
            m3 = self.H.from_human_string(text, table, safe=True)
        except Exception as e:  # noqa
            return "parse-raises", f"{type(e).__name__}: {e}"[:300], None
        if m3 is None:
            return "parse-raises", "from_human_string returned None", None
        try:
            if fill_empty:
                tmpl = self.td.get_template_by_name(ref.name)
                have = dict(m3.blocks)
                m3.blocks.clear()
                for tb in tmpl.blocks:
                    if tb.name in have:
                        m3.blocks[tb.name] = have.pop(tb.name)
                    elif tb.name in ref.blocks and len(ref.blocks[tb.name]) == 0:
                        m3.create_block_list(tb.name)
                for k, v in have.items():
                    m3.blocks[k] = v
            m3.packet_id = ref.packet_id
            m3.extra = ref.extra
            m3.send_flags = ref.send_flags
            m3.acks = ref.acks
            b3 = self.body(m3)
        except Exception as e:  # noqa
            return "reencode-raises", f"{type(e).__name__}: {e}"[:300], m3
        if b3 != self.ref_body:
            return "body-differs", _first_difference(ref, m3), m3
        return "ok", "", m3

    def check(self, m2, beautify, kind, table, with_template):
        """returns list of (key, clause, observed, text) failures for one rendering of the decoded message m2"""
        self.ref_body = self.body(m2)
        tmpl = self.td.get_template_by_name(m2.name) if with_template else None
        try:
            text = self.H.to_human_string(m2, table, beautify=beautify, template=tmpl)
        except Exception as e:  # noqa
            return [("text-roundtrip/format-raises", "to_human_string must render every decoded message", f"{type(e).__name__}: {e}"[:300], "")], None
        status, detail, _ = self.reparse(text, table, m2, False)
        if status == "ok":
            return [], text
        # two structural causes get their own key; each is established independently of the failing text and the text is then repaired for that
        # cause only, so that everything else in the message is still checked
        empties = [bn for bn, bl in m2.blocks.items() if len(bl) == 0]
        deps = order_dependent_fields(m2) if beautify else []
        repaired = text
        if deps:
            spans = getattr(text, "spans", {})
            edits = []
            for bname, idx, var in deps:
                sp = spans.get((m2.name, bname, idx, var))
                if sp:
                    edits.append((sp[0], sp[1], _plain_line(var, m2.blocks[bname][idx].vars[var])))
            for s0, s1, new in sorted(edits, reverse=True):
                repaired = repaired[:s0] + new + repaired[s1:]
        attempts = []
        if deps:
            attempts.append((("dep",), repaired, False))
        if empties:
            attempts.append((("empty",), str(text), True))
        if deps and empties:
            attempts.append((("dep", "empty"), repaired, True))
        for causes, txt, fill in attempts:
            st2, d2, _ = self.reparse(txt, table, m2, fill)
            if st2 != "ok":
                # what remains once the separately keyed causes are repaired is the failure to report
                status, detail = st2, d2 + " (after setting aside: " + ", ".join(
                    {"dep": "packers that need a later field", "empty": "zero-instance Variable blocks"}[c_] for c_ in causes) + ")"
            if st2 == "ok":
                out = []
                if "dep" in causes:
                    for bname, _idx, var in sorted(set((b, 0, v) for b, _i, v in deps)):
                        out.append((f"text-roundtrip/field-order-packer/{m2.name}.{bname}.{var}",
                                    "beautified text must parse back: a packed (=|) field is re-encoded by a packer that needs a field appearing later in the block",
                                    f"{status}: {detail}", text))
                if "empty" in causes:
                    out.append(("text-roundtrip/empty-variable-block",
                                "a Variable block with zero instances must survive the text round trip (its count byte is part of the datagram body)",
                                f"{status}: {detail}; empty block lists {empties} are not represented in the text", text))
                return out, text
        return [(f"text-roundtrip/{status}", {"parse-raises": "text produced by to_human_string must parse in safe mode",
                                              "reencode-raises": "the parsed message must encode",
                                              "body-differs": "the parsed message must encode to the same datagram body"}[status], detail, text)], text


def _quiet_logging():
    prev = logging.root.manager.disable
    logging.disable(logging.CRITICAL)
    return prev


def bounded_text_roundtrip(reg, tier, seed):
    import hippolyzer.lib.base.templates  # noqa  (registers the subfield serializers)
    from hippolyzer.lib.base.message.msgtypes import MsgBlockType, MsgType
    rng = random.Random(seed)
    prev_log = _quiet_logging()
    try:
        rt = RoundTrip()
        evals, failures, seen, samples = 0, [], set(), []
        stats = {"mined": 0, "not_mined": 0, "discarded_noncanonical": 0, "unencodable": 0}
        packed_seen = set()
        tmpls = sorted(msggen.templates(), key=lambda t: t.name)
        reps = 2 if tier == "quick" else 8
        sub_reps_bytes, sub_reps_int = (24, 4) if tier == "quick" else (300, 30)

        def fail(key, clause, inp, observed):
            if sum(1 for f in failures if f["key"] == key) < 2:
                failures.append({"key": key, "clause": clause, "input": inp, "observed": observed})

        def run_case(m, label, nonfinite=None, pinned=False):
            nonlocal evals
            try:
                data = rt.ser.serialize(m)
                m2 = rt.de.deserialize(data)
                _ = m2.blocks
            except Exception:  # noqa
                stats["unencodable"] += 1
                return
            if not pinned:
                # (pinned cases carry sub-format payloads written out as byte constants that are canonical in their wire format: they
                # are used as they are - asking the codec under test whether they are canonical would let a codec change hide them)
                if not canonicalize_subfields(m2):
                    stats["discarded_noncanonical"] += 1
                    return
                try:
                    data = rt.ser.serialize(m2)
                    m2 = rt.de.deserialize(data)
                    _ = m2.blocks
                except Exception:  # noqa
                    stats["unencodable"] += 1
                    return
                if canonicalize_subfields(m2) is not True:      # as decoded from the wire it must already be canonical, otherwise not this driver's subject
                    stats["discarded_noncanonical"] += 1
                    return
            m2.direction = m.direction
            tables = replacement_tables(m2, rng)
            combos = [(False, tables[0]), (False, tables[2]), (True, tables[0]), (True, tables[1]), (True, tables[2]), (True, tables[3]), (True, tables[4])]
            if tier == "quick":
                combos = [combos[0], combos[rng.choice([2, 3])], combos[4], combos[rng.choice([1, 5, 6])]]
            for beautify, (kind, table) in combos:
                with_template = rng.random() < 0.4
                evals += 1
                fs, text = rt.check(m2, beautify, kind, table, with_template)
                seen.add((m.name, label, beautify, kind, with_template, zlib.crc32((text or "").encode("utf8", "surrogatepass"))))
                inp = {"message": m.name, "case": label, "beautify": beautify, "replacements": kind, "replacement_table": _table_repr(table),
                       "with_template": with_template, "direction": m2.direction.name, "datagram": data.hex()}
                if len(samples) < 3 and text and rng.random() < 0.01:
                    samples.append(dict(inp, text=str(text)[:600]))
                if beautify and text:
                    for sk, (s0, s1) in getattr(text, "spans", {}).items():
                        if (sk[0], sk[1], sk[3]) in packed_seen:
                            continue
                        if str.__getitem__(text, slice(s0, s1)).startswith(f"  {sk[3]} =| "):
                            packed_seen.add((sk[0], sk[1], sk[3]))
                for key, clause, observed, txt in fs:
                    if nonfinite is not None and key in ("text-roundtrip/parse-raises", "text-roundtrip/body-differs"):
                        key = f"text-roundtrip/nonfinite-float/{nonfinite}"
                        clause = "a float field holding inf/nan on the wire must survive the text round trip"
                    fail(key, clause, dict(inp, text=str(txt)[:1500]), observed)

        def run_edit_case(m, label):
            """render, edit a field that has a pretty-printed form, render again: the second text is that of the edited message"""
            nonlocal evals
            import hippolyzer.lib.base.serialization as se__
            try:
                m2 = rt.de.deserialize(rt.ser.serialize(m))
                _ = m2.blocks
            except Exception:  # noqa
                return
            m2.direction = m.direction
            target = None
            for bname, blist in m2.blocks.items():
                for bl in blist:
                    for var, cur in list(bl.vars.items()):
                        ser_ = se__.SUBFIELD_SERIALIZERS.get((m2.name, bname, var))
                        if ser_ is None or not isinstance(cur, int) or isinstance(cur, bool):
                            continue
                        for cand in (0, 1, 2, 3, 4):
                            try:
                                if cand != cur and int(ser_.serialize(bl, ser_.deserialize(bl, cand, pod=True))) == cand \
                                        and int(ser_.serialize(bl, ser_.deserialize(bl, cur, pod=True))) == cur:
                                    target = (bl, var, cand)
                                    break
                            except Exception:  # noqa
                                continue
                        if target:
                            break
                    if target:
                        break
                if target:
                    break
            if not target:
                return
            kind, table = replacement_tables(m2, rng)[0]
            evals += 1
            fs1, _t1 = rt.check(m2, True, kind, table, False)
            if fs1:
                return          # the first rendering is the other cases' subject
            bl, var, cand = target
            bl[var] = cand
            evals += 1
            fs2, text2 = rt.check(m2, True, kind, table, False)
            seen.add((m.name, label, "edit", var, cand))
            for key, clause, observed, txt in fs2:
                fail("text-roundtrip/after-edit", "the text shown for a message that was edited after an earlier rendering parses back to the edited message",
                     {"message": m.name, "case": label, "edited": f"{var} = {cand}", "text": str(txt)[:1200]}, observed)

        for mn_ in ("ChatFromViewer", "ChatFromSimulator", "ViewerEffect", "ObjectUpdate", "ScriptDialog", "ObjectAdd", "AgentUpdate", "ParcelProperties"):
            t_ = next((x for x in tmpls if x.name == mn_), None)
            if t_ is None:
                continue
            for _k in range(3 if tier == "quick" else 20):
                try:
                    run_edit_case(gen_message(t_, rng, False, "one", subfields=True, stats=stats), "edit")
                except Exception as e:  # noqa
                    fail("text-roundtrip/generator", "driver could not build a message", {"message": mn_}, repr(e))
        # pinned sub-format payloads (byte constants): terse object updates for a prim and an avatar whose quantised rotation has every
        # sign pattern, W in the lower half of its range included
        from hippolyzer.lib.base.message.message import Message as _Msg, Block as _Blk
        from hippolyzer.lib.base.network.transport import Direction as _Dir
        for avatar, rot in itertools.product((False, True), ((32768, 40000, 32768, 5000), (40000, 20000, 50000, 60000), (1, 65535, 32768, 32767),
                                                               (20000, 20000, 20000, 20000), (0, 0, 0, 0), (65535, 65535, 65535, 65535))):
            pl = struct.pack("<IBB", 77, 0, 1 if avatar else 0) + (struct.pack("<4f", 0.0, 0.0, 1.0, 0.5) if avatar else b"")
            pl += struct.pack("<3f", 1.0, 2.0, 3.0) + struct.pack("<3H", 32768, 40000, 100) + struct.pack("<3H", 32768, 32768, 65535)
            pl += struct.pack("<4H", *rot) + struct.pack("<3H", 32768, 0, 32768)
            m = _Msg("ImprovedTerseObjectUpdate", _Blk("RegionData", RegionHandle=5, TimeDilation=65535),
                     _Blk("ObjectData", Data=pl, TextureEntry=b""), packet_id=9, direction=_Dir.IN)
            run_case(m, f"pinned-terse-{'avatar' if avatar else 'prim'}-{rot}", pinned=True)
        # pinned: a group-notice instant message whose binary bucket (a sub-format with a NUL-terminated name in it) carries a name
        # that is valid UTF-8, Latin-1, or no text at all - the text shown falls back to the exact bytes when it has to
        import uuid as _uuid
        for nm_ in (b"notes", b"caf\xc3\xa9 notes", b"caf\xe9 notes", b"\xff\xfe\x80 raw", b""):
            bucket = b"\x01\x07" + _uuid.UUID(int=0xabcdef).bytes + nm_ + b"\x00"
            m = _Msg("ImprovedInstantMessage", _Blk("AgentData", AgentID=_uuid.UUID(int=1), SessionID=_uuid.UUID(int=2)),
                     _Blk("MessageBlock", FromGroup=0, ToAgentID=_uuid.UUID(int=3), ParentEstateID=1, RegionID=_uuid.UUID(int=4), Position=(1.0, 2.0, 3.0),
                          Offline=0, Dialog=32, ID=_uuid.UUID(int=5), Timestamp=0, FromAgentName=b"Some Resident\x00", Message=b"subject|body\x00",
                          BinaryBucket=bucket), packet_id=10, direction=_Dir.IN)
            run_case(m, f"pinned-group-notice-{nm_!r}", pinned=True)
        for t in tmpls:
            has_var = any(b.block_type == MsgBlockType.MBT_VARIABLE for b in t.blocks)
            variants = [("rand", False), ("one", True)] + ([("min", False)] if has_var else [])
            if tier == "thorough" and has_var:
                variants.append(("many", False))
            for counts, boundary in variants * reps:
                try:
                    m = gen_message(t, rng, boundary, counts, subfields=True, stats=stats)
                except Exception as e:  # noqa
                    fail("text-roundtrip/generator", "driver could not build a message", {"message": t.name}, repr(e))
                    continue
                run_case(m, counts)
        # templates with registered subfield serializers: many more cases, so that every pretty-printed sub-format is rendered and parsed back
        import hippolyzer.lib.base.serialization as se_
        sub_msgs = sorted({k[0] for k in se_.SUBFIELD_SERIALIZERS})
        byte_msgs = set()
        for (mn, bn, vn) in se_.SUBFIELD_SERIALIZERS:
            t = next((x for x in tmpls if x.name == mn), None)
            tb = next((b for b in t.blocks if b.name == bn), None) if t else None
            tv = next((v for v in tb.variables if v.name == vn), None) if tb else None
            if tv is not None and tv.type == MsgType.MVT_VARIABLE:
                byte_msgs.add(mn)
        by_name = {t.name: t for t in tmpls}
        for mn in sub_msgs:
            t = by_name.get(mn)
            if t is None:
                continue
            n = (sub_reps_bytes if mn in byte_msgs else sub_reps_int)
            for i in range(n):
                counts = ("one", "rand", "one")[i % 3]
                try:
                    m = gen_message(t, rng, i % 5 == 4, counts, subfields=True, stats=stats)
                except Exception as e:  # noqa
                    fail("text-roundtrip/generator", "driver could not build a message", {"message": t.name}, repr(e))
                    continue
                run_case(m, f"subfield-{counts}")
        # non-finite floats (own key; kept out of the main campaign so that they cannot mask anything else)
        scal = []
        vecs = []
        for t in tmpls:
            for tb in t.blocks:
                for tv in tb.variables:
                    if tv.type in (MsgType.MVT_F32, MsgType.MVT_F64):
                        scal.append((t, tb.name, tv.name))
                    elif tv.type in (MsgType.MVT_LLVector3, MsgType.MVT_LLVector3d, MsgType.MVT_LLVector4):
                        vecs.append((t, tb.name, tv.name))
        rng.shuffle(scal)
        rng.shuffle(vecs)
        n_nf = 12 if tier == "quick" else 80
        for form, lst in (("scalar", scal[:n_nf]), ("vector", vecs[:n_nf])):
            for t, bname, vname in lst:
                try:
                    m = gen_message(t, rng, False, "one", subfields=False, stats=stats)
                    special = rng.choice([float("inf"), float("-inf"), float("nan")])
                    blk = m.blocks[bname][0]
                    if form == "scalar":
                        blk[vname] = special
                    else:
                        old = blk[vname]
                        comps = list(old.data() if callable(getattr(old, "data", None)) else tuple(old))
                        comps[rng.randrange(len(comps))] = special
                        blk[vname] = type(old)(*comps)
                except Exception as e:  # noqa
                    fail("text-roundtrip/generator", "driver could not build a message", {"message": t.name}, repr(e))
                    continue
                run_case(m, f"nonfinite-{form}", nonfinite=form)
        mined_fields = sorted(stats.pop("mined_fields", set()))
        return {"name": "text-roundtrip-all-templates", "evaluations": evals, "distinct_nontrivial": len(seen),
                "rule": f"all {len(tmpls)} templates x block-count modes (random 0-3 / one / zero / many) x values (boundary and seeded numerics; Variable and Fixed "
                        "fields from a catalogue of multi-line, quote-, comment- and continuation-laden, NUL-bearing, non-UTF8 and long payloads with and without "
                        "NUL terminator; fields with a subfield serializer carry payloads mined to be accepted by it in the block's context), encoded, decoded "
                        "from the wire, rendered x beautify {off,on} x replacement tables {none, empty, matching, non-matching, partial} x template annotations "
                        "{off,on}, parsed in safe mode, re-encoded: zero-decoded datagram bodies must be equal. Plus inf/nan in scalar and vector float fields. "
                        "distinct = distinct (template, count mode, beautify, table kind, annotation, rendered text)",
                "bounded": True,
                "bounds": {"reps": reps, "subfield_payloads_mined": stats["mined"], "subfield_payloads_not_mined": stats["not_mined"],
                           "fields_with_mined_payloads": mined_fields,
                           "subfield_serializers_rendered_packed": f"{len(packed_seen)} of {len(se_.SUBFIELD_SERIALIZERS)}",
                           "subfield_serializers_never_rendered_packed": sorted(".".join(k) for k in se_.SUBFIELD_SERIALIZERS if k not in packed_seen), "discarded_noncanonical_subfield": stats["discarded_noncanonical"],
                           "unencodable_generated": stats["unencodable"]},
                "samples": samples, "failures": failures}
    finally:
        logging.disable(prev_log)


# ---------------------------------------------------------------------------------------------------------------------------
# safe mode
# ---------------------------------------------------------------------------------------------------------------------------
_AUDIT = {"armed": False, "events": [], "installed": False}


def _audit_hook(event, args):
    if not _AUDIT["armed"]:
        return
    if event == "exec":
        try:
            code = args[0]
            fn = getattr(code, "co_filename", "")
        except Exception:  # noqa
            fn = "?"
        if fn in ("<string>", "?"):
            _AUDIT["events"].append(f"exec of code compiled from a string ({getattr(args[0], 'co_names', ())!r:.80})")


def _install_audit():
    if not _AUDIT["installed"]:
        sys.addaudithook(_audit_hook)
        _AUDIT["installed"] = True


ENV_KEY = "C11_SAFE_MODE_PROBE"


def eval_operators(maxlen=4):
    """every operator the line grammar (=[|$]*) admits, up to maxlen flag characters, that carries the eval flag"""
    ops = []
    frontier = [""]
    for _ in range(maxlen):
        frontier = [f + c for f in frontier for c in "|$"]
        ops += ["=" + f for f in frontier if "$" in f]
    return ops


def bounded_safe_mode(reg, tier, seed):
    import builtins
    import hippolyzer.lib.base.templates  # noqa
    import hippolyzer.lib.base.serialization as se
    from hippolyzer.lib.base.message import message_formatting as mf
    rng = random.Random(seed)
    prev_log = _quiet_logging()
    _install_audit()
    H = mf.HumanMessageSerializer
    calls = []
    counters = {"eval": 0}

    def probe(*a, **k):
        calls.append(1)
        return 1

    real_eval, real_exec, real_subfield_eval = builtins.eval, builtins.exec, mf.subfield_eval

    def spy_eval(*a, **k):
        counters["eval"] += 1
        return real_eval(*a, **k)

    def spy_exec(*a, **k):
        counters["eval"] += 1
        return real_exec(*a, **k)

    def spy_subfield_eval(*a, **k):
        counters["eval"] += 1
        return real_subfield_eval(*a, **k)

    expressions = [
        f"__import__('os').environ.__setitem__({ENV_KEY!r}, '1') or 1",
        "PROBE()", "PROBE() or b''", "[PROBE() for _ in (1,)]", "block.__setitem__('Injected', PROBE())", "(lambda: PROBE())()",
        "1+1", "math.pi", "UUID(int=1)", "b'a'*3", "[1][0]", "Vector3(1,2,3)", "llsd.format_binary({})", "base64.b64decode('AA==')",
        "1", "'x'", "(1, 2)", "{'a': 1}", "None", "<1,2,3>", "1f4ffb55-022e-49fb-8c63-6f159aed9b24", "[[EXPR]]", "[[NOSUCH]]",
        "exec(\"PROBE()\")", "eval('PROBE()')", "__builtins__['eval']('PROBE()')", "PROBE", "PROBE() \\", "# PROBE()", "'a' if PROBE() else 'b'",
    ]
    table = {"PROBE": probe, "EXPR": "PROBE()", "AGENT_ID": uuid.UUID(int=1), "SESSION_ID": uuid.UUID(int=2), "CIRCUIT_CODE": 5}
    eval_ops = eval_operators(4)
    other_ops = ["=", "=|", "=||", "= $", "=$ |", "= |$", " =$", "=\t$|"]
    failures, seen, samples = [], set(), []
    evals = 0

    def fail(key, clause, inp, observed):
        if sum(1 for f in failures if f["key"] == key) < 2:
            failures.append({"key": key, "clause": clause, "input": inp, "observed": observed})

    def observed_evaluation():
        ev = []
        if os.environ.pop(ENV_KEY, None) is not None:
            ev.append("side effect of the expression observed (environment variable set)")
        if calls:
            ev.append("callable named in the expression was called")
        if counters["eval"]:
            ev.append("eval/exec/subfield_eval was entered")
        if _AUDIT["events"]:
            ev.append(_AUDIT["events"][0])
        return ev

    def parse(text, safe_arg):
        """returns (raised?, evaluation evidence)"""
        os.environ.pop(ENV_KEY, None)
        calls.clear()
        counters["eval"] = 0
        _AUDIT["events"].clear()
        raised = None
        _AUDIT["armed"] = True
        try:
            if safe_arg == "default":
                H.from_human_string(text, dict(table))
            elif safe_arg == "positional":
                H.from_human_string(text, dict(table), None, True)
            elif safe_arg == "unsafe":
                H.from_human_string(text, dict(table), safe=False)
            else:
                H.from_human_string(text, dict(table), safe=True)
        except BaseException as e:  # noqa   (rejecting the text is fine)
            if isinstance(e, (KeyboardInterrupt, SystemExit, MemoryError)):
                raise
            raised = e
        finally:
            _AUDIT["armed"] = False
        return raised, observed_evaluation()

    try:
        builtins.eval, builtins.exec, mf.subfield_eval = spy_eval, spy_exec, spy_subfield_eval
        rt_ser, rt_de = _codec()
        # base texts: rendered messages (fields with and without packers), both layouts
        tmpls = sorted(msggen.templates(), key=lambda t: t.name)
        by_name = {t.name: t for t in tmpls}
        fixed = ["ChatFromViewer", "ObjectImage", "ImprovedInstantMessage", "AgentUpdate", "UseCircuitCode", "ObjectUpdate", "ViewerEffect", "TestMessage"]
        chosen = [by_name[n] for n in fixed if n in by_name]
        pool = [t for t in tmpls if t.name not in fixed]
        rng.shuffle(pool)
        chosen += pool[:(8 if tier == "quick" else 60)]
        stats = {"mined": 0, "not_mined": 0}
        bases = []
        for t in chosen:
            for beautify in (False, True):
                try:
                    m = gen_message(t, rng, False, "one", subfields=True, stats=stats)
                    m2 = rt_de.deserialize(rt_ser.serialize(m))
                    _ = m2.blocks
                    m2.direction = m.direction
                    text = H.to_human_string(m2, table, beautify=beautify)
                except Exception:  # noqa
                    continue
                bases.append((t.name, beautify, text))
        # self-check of the probes: with safe=False the eval operator does evaluate, and every detector notices it
        sc_text = "OUT ChatFromViewer\n[AgentData]\n  AgentID = [[AGENT_ID]]\n  SessionID = [[SESSION_ID]]\n[ChatData]\n  Message = 'x'\n  Type = 1\n  Channel =$ PROBE()\n"
        _r, sc_ev = parse(sc_text, "unsafe")
        selfcheck = len(sc_ev)
        _r, sc_clean = parse(sc_text.replace("=$ PROBE()", "= 1"), "safe")
        if sc_clean:
            fail("safe-mode/detector-noise", "harness self-check: parsing a text without expressions must not look like an evaluation",
                 {"text": sc_text.replace("=$ PROBE()", "= 1")}, "; ".join(sc_clean))

        def mutate(name, beautify, text, op, expr, how):
            spans = getattr(text, "spans", {})
            keys = sorted(spans.keys(), key=lambda k: spans[k])
            s = str(text)
            if not keys:
                return None
            k = rng.choice(keys)
            var = k[3]
            s0, s1 = spans[k]
            if how == "replace":
                return s[:s0] + f"  {var} {op} {expr}" + s[s1:], var
            if how == "continued":
                return s[:s0] + f"  {var} {op} \\\n    {expr}" + s[s1:], var
            if how == "append":
                return s.rstrip("\n") + f"\n  {var} {op} {expr}\n", var
            if how == "newblock":
                return s.rstrip("\n") + f"\n[{k[1]}]\n  {var} {op} {expr}\n", var
            if how == "first":
                lines = s.split("\n")
                return "\n".join([lines[0]] + [f"[{k[1]}]", f"  {var} {op} {expr}"] + lines[1:]), var
            return None

        hows = ["replace", "continued", "append", "newblock", "first"]
        n_rand = 1500 if tier == "quick" else 20000
        plan = []
        # complete part: every eval-carrying operator x every expression on fixed targets (fields without / with packers)
        for op in eval_ops + other_ops:
            for expr in expressions:
                plan.append((None, op, expr, "replace"))
        for _ in range(n_rand):
            plan.append((rng.randrange(len(bases)), rng.choice(eval_ops + other_ops), rng.choice(expressions), rng.choice(hows)))
        targets = [("ChatFromViewer", "ChatData", "Channel"), ("ChatFromViewer", "ChatData", "Type"), ("ChatFromViewer", "ChatData", "Message"),
                   ("ObjectImage", "ObjectData", "TextureEntry")]
        ti = 0
        for bi, op, expr, how in plan:
            if bi is None:
                mname, bname, var = targets[ti % len(targets)]
                ti += 1
                for (mname, bname, var) in targets:
                    text = (f"OUT {mname}\n[AgentData]\n  AgentID = {uuid.UUID(int=1)}\n  SessionID = [[SESSION_ID]]\n[{bname}]\n"
                            f"  {var} {op} {expr}\n")
                    for safe_arg in ("safe", "default"):
                        evals += 1
                        seen.add((mname, var, op, expr, "line", safe_arg))
                        raised, ev = parse(text, safe_arg)
                        if ev:
                            fail("safe-mode/evaluated", "parsing in safe mode must never evaluate expressions contained in the text",
                                 {"text": text, "safe": safe_arg, "operator": op, "expression": expr, "replacement_table": _table_repr(table)},
                                 "; ".join(ev) + (f"; parse then raised {type(raised).__name__}" if raised else "; parse accepted the text"))
                continue
            name, beautify, base = bases[bi]
            mt = mutate(name, beautify, base, op, expr, how)
            if mt is None:
                continue
            text, var = mt
            safe_arg = rng.choice(["safe", "safe", "default", "positional"])
            evals += 1
            seen.add((name, beautify, var, op, expr, how))
            raised, ev = parse(text, safe_arg)
            if len(samples) < 3 and rng.random() < 0.005:
                samples.append({"message": name, "operator": op, "expression": expr, "how": how, "outcome": type(raised).__name__ if raised else "accepted"})
            if ev:
                fail("safe-mode/evaluated", "parsing in safe mode must never evaluate expressions contained in the text",
                     {"text": text[:3000], "safe": safe_arg, "operator": op, "expression": expr, "how": how, "replacement_table": _table_repr(table)},
                     "; ".join(ev) + (f"; parse then raised {type(raised).__name__}" if raised else "; parse accepted the text"))
        # rendered text never needs the eval operator: every base text parses in safe mode without evaluation
        for name, beautify, base in bases:
            evals += 1
            seen.add((name, beautify, "base"))
            raised, ev = parse(str(base), "safe")
            if ev:
                fail("safe-mode/evaluated", "parsing in safe mode must never evaluate expressions contained in the text",
                     {"text": str(base)[:3000], "safe": "safe"}, "; ".join(ev))
        return {"name": "safe-mode-text-fuzz", "evaluations": evals, "distinct_nontrivial": len(seen),
                "rule": f"complete: {len(eval_ops)} eval-carrying operators of the grammar =[|$]{{1,4}} + {len(other_ops)} plain/packed/spaced operators x "
                        f"{len(expressions)} expression-looking values x 4 target fields (with and without packer) x safe passed explicitly / by default; "
                        f"seeded: {n_rand} rewrites (replace a line, continuation line, appended line, new block, before the first block) of {len(bases)} "
                        "rendered messages (plain and beautified). Evaluation is detected by side effects (environment variable, callable from the "
                        "replacement table), spies on eval/exec/subfield_eval and the interpreter's 'exec' audit event for code compiled from a string. "
                        "distinct = distinct (message, field, operator, expression, placement)",
                "bounded": True, "bounds": {"operators": len(eval_ops) + len(other_ops), "expressions": len(expressions), "bases": len(bases),
                                            "detectors_firing_with_safe_off": selfcheck},
                "samples": samples, "failures": failures}
    finally:
        builtins.eval, builtins.exec, mf.subfield_eval = real_eval, real_exec, real_subfield_eval
        _AUDIT["armed"] = False
        os.environ.pop(ENV_KEY, None)
        logging.disable(prev_log)
