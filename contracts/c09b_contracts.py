"""Tier-P contracts for C09, second part: Block.deserialize_var / serialize_var - the cache in front of the registered subfield
serializers: a value comes either from the cache or from exactly one run of the registered serializer on the variable's raw
value (and is then cached under that name); callers get a private copy unless they opt out; a pretty value written through
serialize_var is serialized once, stored as the variable's raw value, and cached."""
from pyvc.contracts import ClassDecl, FnContract

MREL = "hippolyzer/lib/base/message/message.py"
MMOD = "hippolyzer.lib.base.message.message"


def register_p2(reg, prop):
    o = "Opaque:Any"
    reg.add_class(ClassDecl("BlockSer", fields={"vars": o, "_ser_cache": "Opaque:Cache", "name": "Str", "message_name": o}))
    reg.add_fn(FnContract(
        key=f"{MMOD}:Block.deserialize_var", relpath=MREL, qualname="Block.deserialize_var", cls="BlockSer", prop=prop,
        params={"var_name": "Str", "make_copy": "Bool"}, param_names=["var_name", "make_copy"], defaults={"make_copy": True}, returns=o,
        externals={
            "sub:self._ser_cache[var_name]": {"returns": o, "record_as": "cached", "record_result": True, "doc": "cached pretty value"},
            "sub:self[var_name]": {"returns": o, "record_as": "raw", "record_result": True, "may_raise": "KeyError", "doc": "raw value of the variable"},
            "copy.deepcopy": {"returns": o, "record_as": "copy", "record_result": True, "doc": "private deep copy"},
            "self.get_serializer": {"returns": "Opaque:Ser", "record_as": "lookup", "may_raise": "KeyError", "doc": "registered serializer for (message, block, variable)"},
            "serializer.deserialize": {"returns": o, "record_as": "deser", "record_result": True, "may_raise": "AnyException", "doc": "the registered subfield serializer"},
        },
        may_raise={"AnyException": "", "KeyError": ""},
        ensures=[
            # one source: the cache, or one run of the registered serializer on this variable's raw value in object (non plain-data) mode
            "ncalls('cached') + ncalls('deser') == 1",
            "implies(ncalls('deser') == 1, ncalls('lookup') == 1 and called_with('lookup', lambda arg0: arg0 == var_name) and "
            "called_with('raw', lambda result: called_with('deser', lambda arg0, arg1, pod: arg0 == self and arg1 == result and not pod)))",
            # a computed value is cached under the variable's name
            "implies(ncalls('deser') == 1, ncalls('store:self._ser_cache') == 1 and stored_key('store:self._ser_cache') == var_name and "
            "called_with('deser', lambda result: stored_value('store:self._ser_cache') == result))",
            "implies(ncalls('cached') == 1, ncalls('store:self._ser_cache') == 0)",
            # callers get a private deep copy of that value unless they opted out
            "iff(make_copy, ncalls('copy') == 1)", "ncalls('copy') <= 1",
            "implies(make_copy and ncalls('deser') == 1, called_with('deser', lambda result: called_with('copy', lambda arg0: arg0 == result)))",
            "implies(make_copy and ncalls('cached') == 1, called_with('cached', lambda result: called_with('copy', lambda arg0: arg0 == result)))",
            "implies(make_copy, called_with('copy', lambda result: result == RESULT))",
            "implies(not make_copy and ncalls('deser') == 1, called_with('deser', lambda result: result == RESULT))",
            "implies(not make_copy and ncalls('cached') == 1, called_with('cached', lambda result: result == RESULT))",
        ],
        frame=["_ser_cache"]))
    reg.add_fn(FnContract(
        key=f"{MMOD}:Block.serialize_var", relpath=MREL, qualname="Block.serialize_var", cls="BlockSer", prop=prop,
        params={"var_name": "Str", "val": o}, param_names=["var_name", "val"],
        externals={
            "self.get_serializer": {"returns": "Opaque:Ser", "record_as": "lookup", "may_raise": "KeyError", "doc": "registered serializer"},
            "serializer.serialize": {"returns": o, "record_as": "ser", "record_result": True, "may_raise": "AnyException", "doc": "the registered subfield serializer"},
        },
        may_raise={"AnyException": "", "KeyError": ""},
        ensures=[
            "ncalls('lookup') == 1 and called_with('lookup', lambda arg0: arg0 == var_name)",
            "ncalls('ser') == 1 and called_with('ser', lambda arg0, arg1: arg0 == self and arg1 == val)",
            # the serialized form becomes the variable's raw value, the pretty value is cached under the same name
            "ncalls('store:self') == 1 and stored_key('store:self') == var_name and called_with('ser', lambda result: stored_value('store:self') == result)",
            "ncalls('store:self._ser_cache') == 1 and stored_key('store:self._ser_cache') == var_name and stored_value('store:self._ser_cache') == val",
        ],
        frame=["_ser_cache"]))
