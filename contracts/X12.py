from contracts import c12_contracts
PID = "X12"
META = {"level": "other", "explanation": "scratch", "trusted_base": []}


def register(reg):
    c12_contracts.register_p(reg, PID)


BOUNDED = []
