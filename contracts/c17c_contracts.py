"""Tier-P contract for C17, third part: the request side of the replay cache (MITMProxyEventManager._handle_request, EventQueueGet
branch): a poll whose acknowledgement id has a cached response is answered from the cache - with exactly that payload - instead
of going to the simulator; any other poll is passed through untouched."""
from pyvc.contracts import ClassDecl, FnContract, alias_loops_by_order

HREL = "hippolyzer/lib/proxy/http_event_manager.py"
KEY = "hippolyzer.lib.proxy.http_event_manager:MITMProxyEventManager._handle_request"


def register_p3(reg, prop, instances=None, only_handle_request=False, only_clauses=None):
    """only_clauses: substrings selecting which of the postconditions this property's instance carries (the replay-cache clauses
    are C17's and speak about CapType through C17's own declarations)"""
    from hippolyzer.lib.proxy.caps import CapType
    o = "Opaque:Any"
    if "MITMProxyEventManager" not in reg.classes:
        reg.add_class(ClassDecl("MITMProxyEventManager", fields={"session_manager": o, "llsd_message_serializer": o, "UPLOAD_CREATING_CAPS": o,
                                                                "flow_context": o, "from_proxy_queue": o, "to_proxy_queue": o}))
    reg.classes["MITMProxyEventManager"].fields.setdefault("_asset_server_proxied", "Bool")
    ext = {
        "self.session_manager.resolve_cap": {"returns": "Opt[Opaque:CapData]", "record_as": "resolve_cap", "doc": "capability attribution of the URL (C16)"},
        "self.session_manager.asset_repo.try_serve_asset": {"returns": "Bool", "may_raise": "AnyException", "doc": "local asset repo"},
        "AddonManager.handle_http_request": {"record_as": "addon_hook", "may_raise": "AnyException", "doc": "addon hook"},
        "cap_data.cap_name.endswith": {"returns": "Bool", "doc": "str.endswith"},
        "cap_data.cap_name.rsplit": {"returns": o, "doc": "str.rsplit"},
        "cap_data.region": {"returns": "Opt[Opaque:Region]", "doc": "weakref deref"},
        "urllib.parse.urlsplit": {"returns": o, "record_as": "urlsplit", "doc": "url split"},
        # the request URL is mutable: addons rewrite it. Each read is logged with the number of addon-hook calls made by then.
        "attr:flow.request.url": {"returns": "Str", "record_as": "read_url", "record_ghost": {"hooks": "ncalls('addon_hook')"},
                                  "doc": "current request URL (addons may have rewritten it)"},
        "urllib.parse.urlunsplit": {"returns": o, "doc": "url unsplit"},
        "list": {"returns": o, "doc": "list()"},
        "mitmproxy.http.Response.make": {"returns": "Opaque:Response", "record_as": "make_response", "record_result": True, "doc": "synthetic response"},
        "llsd.parse_xml": {"returns": o, "record_as": "parse", "record_result": True, "may_raise": "AnyException", "doc": "LLSD XML parse"},
        "llsd.format_xml": {"returns": o, "record_as": "format", "record_result": True, "may_raise": "AnyException", "doc": "LLSD XML format"},
        "eq_manager.get_cached_poll_response": {"returns": "Opt[Opaque:Payload]", "record_as": "cache_lookup", "record_result": True,
                                                "doc": "EventQueueManager.get_cached_poll_response (own contract: the payload cached under that ack, else None)"},
        "parsed_seed.remove": {"doc": "list remove"}, "*.append": {"doc": "list append"},
        "*.items": {"returns": "Opaque:Items", "doc": "dict items view"},
        "self._is_login_request": {"returns": "Bool", "doc": "login sniffer"},
        "CapData": {"returns": "Opaque:CapData", "ignore_args": True, "doc": "cap data"},
        "print": {"doc": "console"},
    }
    for nm, tier, cs in (instances or (("@eq-branch", "quick", {"cap_data": "not is_none(cap_data) and val(cap_data).cap_name == 'EventQueueGet'"}),
                                       ("", "thorough", {}))):
        reg.add_fn(FnContract(
            key=KEY + nm, relpath=HREL, tier=tier, case_split=cs,
            qualname="MITMProxyEventManager._handle_request", cls="MITMProxyEventManager", prop=prop,
            params={"flow": "Opaque:Flow"}, param_names=["flow"], consts={"CapType": CapType}, externals=ext,
            may_raise={"AnyException": "", "AttributeError": "", "KeyError": "", "TypeError": "", "ValueError": ""},
            loops={"for known_cap_name, (known_cap_type, known_cap_url) in cap_data.region().caps.items()": {
                "elem_sort": "Tuple[Str,Tuple[Opaque:CapType,Str]]", "inv": ["True"]}},
            ensures=[
                # (C15) a rewritten request survives: whenever the request URL is taken apart to build the URL actually requested
                # (wrapper capabilities), what is taken apart is the URL as it is after the addon hook ran, not an earlier reading
                "implies(ncalls('urlsplit') >= 2, called_with('read_url', lambda result, hooks: hooks == 1 and "
                "called_with('urlsplit', lambda arg0: arg0 == result)))",
                # (C16) the request is attributed by its request URL (not by anything else the client supplies, such as a Host header)
                "ncalls('resolve_cap') == 1 and called_with('resolve_cap', lambda arg0: called_with('read_url', lambda result: result == arg0))",
                "ncalls('cache_lookup') <= 1",
                # the replay: looked up under the ack the request carries; a hit is served from the cache, with that very payload
                "implies(ncalls('cache_lookup') == 1, called_with('parse', lambda result: called_with('cache_lookup', lambda arg0: arg0 == result['ack'])))",
                "implies(called_with('cache_lookup', lambda result: not is_none(result) and truthy(val(result))), "
                "called_with('cache_lookup', lambda result: called_with('format', lambda arg0: arg0 == val(result))) and "
                "called_with('format', lambda result: called_with('make_response', lambda arg0, arg1: arg0 == 200 and arg1 == result)))",
                # a miss leaves the poll alone: no synthetic response is made for it
                "implies(called_with('cache_lookup', lambda result: is_none(result) or not truthy(val(result))) and "
                "not (truthy(val(cap_data).type == CapType.PROXY_ONLY)), ncalls('make_response') == 0)",
            ],
            frame=None))
        if only_clauses:
            reg.fns[KEY + nm].ensures = [e for e in reg.fns[KEY + nm].ensures if any(t in e for t in only_clauses)]
        alias_loops_by_order(reg.fns[KEY + nm])
    if only_handle_request:
        return


    # Region registration from announcing events: a region already known under that circuit address (or, failing that, under that
    # seed URL) is the one returned - whether or not it has a circuit yet -, and only otherwise exactly one new region is created
    # and appended.
    CREL = "hippolyzer/lib/client/state.py"
    reg.add_class(ClassDecl("RegionSeen", fields={"circuit_addr": "Opaque:Addr", "cap_urls": "Opaque:CapUrls", "handle": "Opt[Int]",
                                                  "is_alive": "Bool", "circuit": "Opt[Opaque:Circuit]"}))   # the last two: not read by the current body, declared to stay in reach
    reg.add_class(ClassDecl("ClientSession", fields={"regions": "Opaque:RegionList", "REGION_CLS": o}))
    reg.add_fn(FnContract(
        key="hippolyzer.lib.client.state:BaseClientSession.register_region", relpath=CREL,
        qualname="BaseClientSession.register_region", cls="ClientSession", prop=prop,
        params={"circuit_addr": "Opt[Opaque:Addr]", "seed_url": "Opt[Str]", "handle": "Opt[Int]"},
        param_names=["circuit_addr", "seed_url", "handle"], defaults={"circuit_addr": None, "seed_url": None, "handle": None},
        returns="Opaque:Any",
        externals={
            "any": {"returns": "Bool", "doc": "any((circuit_addr, seed_url))"},
            "region.cap_urls.get": {"returns": "Opt[Str]", "record_as": "seed_get", "record_result": True, "doc": "the region's Seed URL, if it has one"},
            "region.update_caps": {"record_as": "update_caps", "doc": "Seed URL recorded on the existing region"},
            "self.REGION_CLS": {"returns": "Opaque:Region", "record_as": "create", "record_result": True, "doc": "new region object"},
            "self.regions.append": {"record_as": "append", "doc": "session's region list"},
        },
        may_raise={"ValueError": ""},
        loops={"for region in self.regions": {
            "elem_sort": "Obj:RegionSeen", "inv": ["True"],
            # a region that is passed over is at another address: no second region is ever registered for an address already known
            "iter_post": ["not (not is_none(circuit_addr) and region.circuit_addr == val(circuit_addr))", "ncalls('create') == 0"]}},
        ensures=[
            # found: that region is returned and nothing is created; not found: exactly one region is created, appended and returned
            "implies(L0_left_early == 1, ncalls('create') == 0 and ncalls('append') == 0 and RESULT == region)",
            # ... and it is found under that address or, failing that, under that seed URL - by nothing else (a region that merely shares
            # some other attribute with the announcement is not the region announced: its address would stay unregistered)
            "implies(L0_left_early == 1, (not is_none(circuit_addr) and region.circuit_addr == val(circuit_addr)) or "
            "called_with('seed_get', lambda result: not is_none(result) and not is_none(seed_url) and val(result) == val(seed_url)))",
            "implies(L0_left_early == 0, ncalls('create') == 1 and ncalls('append') == 1 and "
            "called_with('create', lambda arg0, arg1, result: arg0 == val(circuit_addr) and result == RESULT and called_with('append', lambda arg0: arg0 == result)))",
        ],
        frame=None))
    alias_loops_by_order(reg.fns["hippolyzer.lib.client.state:BaseClientSession.register_region"])
