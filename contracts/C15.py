"""C15 - intercepted HTTP flows are handed back exactly once, state intact."""
from pyvc.contracts import ClassDecl, FnContract

PID = "C15"
EREL = "hippolyzer/lib/proxy/http_event_manager.py"
FREL = "hippolyzer/lib/proxy/http_flow.py"
PREL = "hippolyzer/lib/proxy/http_proxy.py"

META = {
    "level": "other",
    "explanation": (
        "P (proved on every path of the real bodies): HippoHTTPFlow.take/resume/preempt typestate - resume hands the flow to the "
        "callback queue exactly once and refuses (AssertionError) a second time; MITMProxyEventManager.pump_proxy_event - for a "
        "request, a response or an unknown event type, whether the internal handler returns or raises anything, at exit the flow has "
        "been resumed or is owned by an addon (taken), resume is called at most once and never on an already resumed flow; "
        "IPCInterceptionAddon._pump_callbacks - in every loop iteration the mitmproxy flow is resumed exactly when one was looked up "
        "in that iteration, also when set_state/intercept raise, and never on an idle poll. await points are per-activation. "
        "B (bounded): real flows through the real event manager with raising handlers/hooks and addon behaviours {ignore, take, "
        "take+resume later, inject response, rewrite url}; state transfer from_state(get_state(f)); CapData serialize/deserialize."),
    "trusted_base": [
        "_handle_request/_handle_response: havocking callees (may raise anything, may take or resume the flow)",
        "HippoHTTPFlow.from_state returns a fresh flow that is neither taken nor resumed",
        "multiprocessing queues, mitmproxy HTTPFlow.get_state/set_state: external (exercised in the bounded tier)",
        "await: no interleaving modelled",
    ],
}


def register(reg):
    reg.add_class(ClassDecl("HippoHTTPFlow", fields={"taken": "Bool", "resumed": "Bool", "callback_queue": "Opaque:Any", "flow": "Opaque:Any"},
                            props={"response_injected": None} if False else {}))
    reg.add_class(ClassDecl("MITMProxyEventManager", fields={"session_manager": "Obj:SessionManagerH", "from_proxy_queue": "Opaque:Any",
                                                             "to_proxy_queue": "Opaque:Any"}))
    reg.add_class(ClassDecl("SessionManagerH", fields={"message_logger": "Opaque:Any"}))
    reg.add_class(ClassDecl("IPCInterceptionAddon", fields={"to_proxy_queue": "Opaque:Any", "flows": "Opaque:Any", "shutdown_signal": "Opaque:Any", "from_proxy_queue": "Opaque:Any"}))
    qput = {"self.callback_queue": {"returns": "Opaque:Any", "doc": "weakref deref"}, "*.put": {"record_as": "put", "doc": "queue put"},
            "self.get_state": {"returns": "Opaque:Any", "doc": "flow state (bounded tier)"}}
    reg.add_fn(FnContract(key="hippolyzer.lib.proxy.http_flow:HippoHTTPFlow.resume", relpath=FREL, qualname="HippoHTTPFlow.resume",
                          cls="HippoHTTPFlow", prop=PID, externals=qput, record_as="resume",
                          raises={"AssertionError": "not truthy(self.callback_queue) or self.resumed"}, raise_preserves_state=True,
                          ensures=["self.resumed and not self.taken", "ncalls('put') == 1"], frame=["taken", "resumed"]))
    reg.add_fn(FnContract(key="hippolyzer.lib.proxy.http_flow:HippoHTTPFlow.take", relpath=FREL, qualname="HippoHTTPFlow.take",
                          cls="HippoHTTPFlow", prop=PID, returns="Obj:HippoHTTPFlow",
                          raises={"AssertionError": "self.taken or self.resumed"}, raise_preserves_state=True,
                          ensures=["self.taken and not self.resumed", "result == self"], frame=["taken"]))
    reg.add_fn(FnContract(key="hippolyzer.lib.proxy.http_flow:HippoHTTPFlow.preempt", relpath=FREL, qualname="HippoHTTPFlow.preempt",
                          cls="HippoHTTPFlow", prop=PID, externals=qput,
                          raises={"AssertionError": "self.taken or not self.resumed"}, raise_preserves_state=True,
                          ensures=["ncalls('put') == 1"], frame=[]))
    handler = {"may_raise": "AnyException", "modifies": ["flow.taken", "flow.resumed"],
               "post": "not (flow.taken and flow.resumed)", "snapshot": {"_taken_after": "flow.taken"},
               "doc": "internal handler + addon hooks: may raise anything, may take() the flow, may resume() it (once: resume refuses twice)"}
    reg.add_fn(FnContract(
        key="hippolyzer.lib.proxy.http_event_manager:MITMProxyEventManager.pump_proxy_event", relpath=EREL,
        qualname="MITMProxyEventManager.pump_proxy_event", cls="MITMProxyEventManager", prop=PID,
        externals={
            "self.from_proxy_queue.get": {"returns": "Tuple[Str,Opaque:Any]", "may_raise": "queue.Empty", "doc": "non-blocking queue get"},
            "asyncio.sleep": {"doc": "yield"},
            "HippoHTTPFlow.from_state": {"returns": "Obj:HippoHTTPFlow", "post": ["not result.taken", "not result.resumed", "truthy(result.callback_queue)"],
                                         "doc": "fresh flow wired to to_proxy_queue"},
            "self._handle_request": dict(handler, record_as="h_req"),
            "self._handle_response": dict(handler, record_as="h_resp"),
            "message_logger.log_http_response": {"may_raise": "AnyException", "doc": "message log"},
            "flow.response_injected": {"returns": "Bool", "doc": "flow metadata flag"},
        },
        may_raise={"AnyException": "", "Exception": ""},
        ensures=["implies(defined('flow'), (flow.resumed or flow.taken) and ncalls('resume') <= 1)",
                 "implies(defined('flow'), ncalls('h_req') + ncalls('h_resp') <= 1)",
                 # a flow an addon owns when the handler is done stays with that addon: the pump neither hands it back nor disowns it
                 "implies(defined('_taken_after') and _taken_after, flow.taken and ncalls('resume') == 0)"],
        ensures_on_raise=["implies(defined('flow'), (flow.resumed or flow.taken) and ncalls('resume') <= 1)",
                          "implies(defined('_taken_after') and _taken_after, flow.taken and ncalls('resume') == 0)"],
        frame=["*.taken", "*.resumed"]))
    reg.classes["HippoHTTPFlow"].props["response_injected"] = (FREL, "HippoHTTPFlow.response_injected")
    reg.add_fn(FnContract(
        key="hippolyzer.lib.proxy.http_proxy:IPCInterceptionAddon._pump_callbacks", relpath=PREL,
        qualname="IPCInterceptionAddon._pump_callbacks", cls="IPCInterceptionAddon", prop=PID,
        externals={
            "ParentProcessWatcher": {"returns": "Opaque:Any", "doc": "shutdown watcher"},
            "*.check_shutdown_needed": {"returns": "Bool", "doc": "shutdown flag"},
            "self.to_proxy_queue.get": {"returns": "Tuple[Str,Opaque:Any,Opaque:Any]", "may_raise": "queue.Empty", "doc": "non-blocking queue get"},
            "asyncio.sleep": {"doc": "yield"},
            "self.flows.get": {"returns": "Opt[Opaque:Flow]", "record_as": "lookup", "doc": "flow table lookup"},
            "*.set_state": {"may_raise": "AnyException", "doc": "mitmproxy flow state load"},
            "*.intercept": {"may_raise": "AnyException", "doc": "mitmproxy intercept"},
            "*.resume": {"record_as": "mresume", "doc": "hand the flow back to mitmproxy"},
            "HTTPFlow.from_state": {"returns": "Obj:MitmFlow", "may_raise": "AnyException", "doc": "replayed flow"},
            "mitmproxy.ctx.master.commands.call": {"may_raise": "AnyException", "doc": "replay"},
            "mitmproxy.ctx.master.shutdown": {"doc": "shutdown"},
        },
        loops={0: {"inv": ["True"],
                   "havoc_sorts": {"orig_flow": "Opt[Opaque:Flow]"},
                   "iter_post": [
                       "ncalls('mresume') <= 1",
                       # the flow handed back is one looked up in this very iteration (never a stale one, never on an idle poll)
                       "implies(ncalls('mresume') == 1, ncalls('lookup') + ncalls('getitem:self.flows') == 1)",
                       "iff(ncalls('mresume') == 1, not is_none(orig_flow))",
                   ]}},
        ensures=["True"], frame=["*.intercepted"]))
    reg.add_class(ClassDecl("MitmFlow", fields={"intercepted": "Bool"}))
    # the request handler of the main process (contract shared with C17): a request rewritten by an addon is what goes on - the
    # URL taken apart for a wrapper capability is the one read after the addon hook
    from contracts import c17c_contracts
    c17c_contracts.register_p3(reg, PID, instances=(("@all", "quick", {}),), only_handle_request=True, only_clauses=["'urlsplit'", "ncalls('urlsplit'"])
    # proxy side, handing an event over: the flow is held (intercepted) and registered under its id before its state is taken
    # and queued - the state comes back through set_state() in _pump_callbacks, so a snapshot taken while the flow was not yet
    # held would un-hold it there without waking whoever waits for the resume: the event would never be released
    reg.add_fn(FnContract(
        key="hippolyzer.lib.proxy.http_proxy:IPCInterceptionAddon._queue_flow_interception", relpath=PREL,
        qualname="IPCInterceptionAddon._queue_flow_interception", cls="IPCInterceptionAddon", prop=PID,
        params={"event_type": "Str", "flow": "Opaque:Flow"}, param_names=["event_type", "flow"],
        externals={"flow.intercept": {"record_as": "intercept", "doc": "mitmproxy Flow.intercept: holds the flow until resume()"},
                   "flow.get_state": {"returns": "Opaque:Any", "record_as": "get_state", "record_result": True,
                                      "snapshot": {"_held_at_state": "ncalls('intercept')", "_registered_at_state": "ncalls('store:self.flows')"},
                                      "doc": "mitmproxy Flow.get_state: includes the intercepted flag"},
                   "self.from_proxy_queue.put": {"record_as": "put", "doc": "queue to the main process"},
                   "attr:flow.id": {"returns": "Opaque:Any", "doc": "flow id"}},
        ensures=["ncalls('intercept') == 1 and ncalls('get_state') == 1 and ncalls('put') == 1",
                 "defined('_held_at_state') and _held_at_state == 1 and _registered_at_state == 1",
                 "ncalls('store:self.flows') == 1 and stored_value('store:self.flows') == flow",
                 "called_with('get_state', lambda result: called_with('put', lambda arg0: arg0[0] == event_type and arg0[1] == result))"],
        frame=["flows"]))
    # CapData.serialize: the cross-process form of the routing metadata; must not fail when the region/session is gone
    reg.add_class(ClassDecl("CapData", fields={"cap_name": "Opaque:Any", "region": "Opt[Opaque:Ref]", "session": "Opt[Opaque:Ref]",
                                               "base_url": "Opaque:Any", "type": "Opaque:CapType"}))
    reg.add_class(ClassDecl("RegionLike", fields={"circuit_addr": "Opaque:Any"}))
    reg.add_class(ClassDecl("SessionLike", fields={"id": "Opaque:Any"}))
    reg.add_fn(FnContract(
        key="hippolyzer.lib.proxy.caps:CapData.serialize", relpath="hippolyzer/lib/proxy/caps.py", qualname="CapData.serialize",
        cls="CapData", prop=PID, returns="Opaque:Any",
        externals={"self.region": {"returns": "Opt[Obj:RegionLike]", "pure": True, "fresh": False, "doc": "weakref deref: the region may be gone"},
                   "self.session": {"returns": "Opt[Obj:SessionLike]", "pure": True, "fresh": False, "doc": "weakref deref: the session may be gone"},
                   "SerializedCapData": {"returns": "Opaque:Any", "doc": "NamedTuple constructor"}},
        ensures=["True"], frame=[]))


from contracts import http_native
BOUNDED = [http_native.bounded_flows]
