"""C14 bounded tier: the tracked world (ProxyWorldObjectManager / ProxyObjectManager on top of ClientWorldObjectManager /
ClientObjectManager / RegionObjectsState) compared, after every handler, with an abstract scene graph.

The abstract scene graph (class Model) is what the property's WF(world) denotes:
    objs : full id -> (region, local id, parent local id)          tracked[r] : is region r's object manager registered
and everything else is *derived* from it: live set per region, children of l = live objects of the region naming l as parent,
orphans = live objects naming a parent that is not live.  The real code keeps all of that incrementally (two indices, ChildIDs /
Children / Parent links, orphan lists, request futures); after every message the whole real structure is compared with the
derived one (World._check_graph), every pending request with what the message must have done to it (World._check_futures), and
the log with "no handler raises" (the event dispatcher swallows handler exceptions and logs them).

Semantics taken from the repository's own tests rather than from the statement's wording: a seated avatar survives the kill of
its seat and keeps naming it as parent (test_hierarchy_avatar_not_killed); an object that moves into a region the session does
not know stays known by full id only (test_object_moved_to_bad_region).

Two drivers share one world / model / oracle:
  * bounded_transitions: every (scene graph, enabled message) pair over 3 local ids x 3 full ids (two prims, one avatar) x
    2 regions (+1 unknown region handle) with region teardown / re-handshake, up to renaming, each executed on the real session;
    sessions continue for up to 60 messages so that bookkeeping left behind by earlier messages is carried along;
  * bounded_random_walks: seeded sessions over the full alphabet (multi-block messages, terse / cached (viewer-cache hit, CRC
    match, miss) / compressed updates, property replies, requests for objects and properties, teardown, debounce timers).
The statement's two environment assumptions are generator constraints (Model.enabled / block_ok): no local id is given to two
live objects of one region, and the parent links of a region never form a cycle.

Harness notes: messages are delivered the way handle_proxied_packet does (session-level, then region-level handlers), one
event-loop iteration runs between two messages (as between two datagrams), on a loop with a virtual clock; logging is enabled
for the duration of a driver because the log is where handler exceptions show; the $HOME scan for viewer inventory caches that
every new proxy session performs is stubbed out (machine dependent, unrelated to objects).
"""
import asyncio
import logging
import random

HANDLES = (123, 124)          # two regions the session knows
UNKNOWN_HANDLE = 999          # a region handle the session never registered
LOCALS = (1, 2, 3)
N_FULL = 3                    # full ids 0,1 are prims, 2 is an avatar
CACHE_CRC = 777
UPDATE, PROPERTIES = "UPDATE", "PROPERTIES"


def is_avatar(fi):
    return fi % 3 == 2


# ----------------------------------------------------------------------------------------------------------- reference model
class Effects:
    """what one message must do to pending requests, and which documented hazards it touches"""

    def __init__(self):
        self.cancelled = set()        # (region, local): every request for it must be finished after the message
        self.cancel_region = set()    # region: every request of the region must be finished
        self.resolved = set()         # (region, local, type): must be resolved with the object now at (region, local)
        self.may = set()              # (region, local, type): may be resolved (update that possibly changes nothing)
        self.hazards = set()


class Model:
    def __init__(self, cache=None):
        self.tracked = [True, True]
        self.objs = {}                # full index -> [region | None (regionless), local, parent, crc]
        self.cache = cache or {}      # viewer object cache of both regions: local -> (full index, parent), crc CACHE_CRC
        self._key = None

    def copy(self):
        m = Model(self.cache)
        m.tracked = list(self.tracked)
        m.objs = {f: list(v) for f, v in self.objs.items()}
        return m

    def key(self):
        # regionless objects: local / parent are irrelevant for the scene graph
        k = self._key
        if k is None:
            k = self._key = (tuple(self.tracked),
                             tuple((f, v[0], v[1], v[2]) if v[0] is not None else (f, -1, 0, 0) for f, v in sorted(self.objs.items())))
        return k

    # -- derived views
    def live(self, r):
        return {v[1]: f for f, v in self.objs.items() if v[0] == r}

    def children(self, r, local):
        return sorted(v[1] for v in self.objs.values() if v[0] == r and v[2] == local)

    def orphans(self, r):
        live = self.live(r)
        out = {}
        for v in self.objs.values():
            if v[0] == r and v[2] and v[2] not in live:
                out.setdefault(v[2], []).append(v[1])
        return {k: sorted(v) for k, v in out.items()}

    # -- environment assumptions + what this harness can deliver
    def block_ok(self, r, local, fi, parent):
        """may the simulator announce full id fi as (region r, local, parent) now?"""
        if parent == local:
            return False
        if r == 2:
            return True                               # unknown region: new objects are ignored, known ones become regionless
        if not self.tracked[r]:
            return fi not in self.objs                # a region that was torn down sends nothing about objects that live elsewhere
        par = {}
        for f, v in self.objs.items():
            if v[0] == r and f != fi:
                if v[1] == local:
                    return False                      # assumption 1: one local id, one live object
                par[v[1]] = v[2]
        x = parent                                    # assumption 2: the new link local -> parent closes no cycle
        while x:
            if x == local:
                return False
            x = par.get(x, 0)
        return True

    def enabled(self, step):
        kind = step[0]
        if kind == "upd":
            if len(step[3]) == 1:
                (local, fi, parent), = step[3]
                return self.block_ok(step[2], local, fi, parent)
            m = self.copy()
            seen = set()
            for (local, fi, parent) in step[3]:
                if fi in seen or not m.block_ok(step[2], local, fi, parent):
                    return False
                seen.add(fi)
                m._apply_block(step[2], local, fi, parent, 0, Effects())
            return True
        if kind == "kill":
            return len(set(step[2])) == len(step[2])
        if kind == "down":
            return True          # a circuit can be torn down twice (DisableSimulator, then CloseCircuit): the second time is a no-op for the graph
        if kind == "up":
            return not self.tracked[step[1]]
        if kind == "cached":
            r, local, mode = step[1], step[2], step[3]
            if mode == "hit":
                # the cache is a snapshot of this simulator's objects: it is used for an object that is not there yet
                if r == 2 or not self.tracked[r] or local not in self.cache:
                    return False
                fi, parent = self.cache[local]
                return fi not in self.objs and local not in self.live(r) and self.block_ok(r, local, fi, parent)
            if mode == "match":
                return r != 2 and self.tracked[r] and local in self.live(r)
            # miss: nothing cached under the CRC the simulator names
            return True
        return True

    # -- transitions
    def _apply_block(self, r, local, fi, parent, crc, eff):
        cur = self.objs.get(fi)
        if r == 2 or not self.tracked[r]:
            if cur is None:
                return
            if cur[0] is None:
                eff.hazards.add("regionless-object-updated")
            else:
                eff.cancelled.add((cur[0], cur[1]))
            self.objs[fi] = [None, local, parent, crc]
            return
        if cur is not None and cur[0] is None:
            eff.hazards.add("regionless-object-updated")
        elif cur is not None and (cur[0], cur[1]) != (r, local):
            eff.cancelled.add((cur[0], cur[1]))
        if (r, local) in eff.cancelled:
            eff.hazards.add("local-id-reused-within-message")     # an earlier block of this message moved another object off (r, local)
        self.objs[fi] = [r, local, parent, crc]
        eff.resolved.add((r, local, UPDATE))

    def _kill(self, r, local, eff):
        eff.cancelled.add((r, local))
        fi = self.live(r).get(local)
        for f, v in sorted(self.objs.items()):
            if v[0] == r and v[2] == local:
                if is_avatar(f):
                    # seated avatars survive their seat (tests/proxy/test_object_manager.py::test_hierarchy_avatar_not_killed)
                    # and keep naming it as parent: they become orphans of the dead local id
                    if fi is None:
                        eff.hazards.add("avatar-orphan-of-unknown-killed")
                    continue
                self._kill(r, v[1], eff)
        if fi is not None:
            del self.objs[fi]

    def apply(self, step, crc=0):
        eff = Effects()
        self._key = None
        kind = step[0]
        if kind == "upd":
            for (local, fi, parent) in step[3]:
                self._apply_block(step[2], local, fi, parent, crc, eff)
        elif kind == "kill":
            for local in step[2]:
                self._kill(step[1], local, eff)
        elif kind == "down":
            r = step[1]
            for f in [f for f, v in self.objs.items() if v[0] == r]:
                del self.objs[f]
            self.tracked[r] = False
            eff.cancel_region.add(r)
        elif kind == "up":
            self.tracked[step[1]] = True
        elif kind == "terse":
            r, local = step[1], step[2]
            if r != 2 and self.tracked[r] and local in self.live(r):
                eff.resolved.add((r, local, UPDATE))
        elif kind == "cached":
            r, local, mode = step[1], step[2], step[3]
            if mode == "hit":
                fi, parent = self.cache[local]
                self.objs[fi] = [r, local, parent, CACHE_CRC]
                eff.resolved.add((r, local, UPDATE))
            elif mode == "match" and r != 2 and self.tracked[r] and local in self.live(r):
                eff.may.add((r, local, UPDATE))
        elif kind == "props":
            v = self.objs.get(step[1])
            if v is not None and v[0] is not None:
                eff.resolved.add((v[0], v[1], PROPERTIES))
        return eff


def structural_alphabet():
    steps = []
    for r in (0, 1, 2):
        for local in LOCALS:
            for fi in range(N_FULL):
                for parent in (0,) + LOCALS:
                    if parent != local:
                        steps.append(("upd", None, r, ((local, fi, parent),)))
    for r in (0, 1):
        for local in LOCALS:
            steps.append(("kill", r, (local,)))
        steps.append(("down", r))
        steps.append(("up", r))
    return steps


# ------------------------------------------------------------------------------------------------------------ the real world
class _VirtualLoop(asyncio.SelectorEventLoop):
    """event loop whose clock only moves when the driver says so (debounce timers must not depend on wall-clock)"""
    vt = 1000.0

    def time(self):
        return self.vt


class _LogCatcher(logging.Handler):
    def __init__(self):
        super().__init__(level=logging.ERROR)
        self.records = []

    def emit(self, record):
        self.records.append(record)


class _Transport:
    def __init__(self):
        self.n = 0

    def send_packet(self, packet):
        self.n += 1

    def close(self):
        pass


_TE = (b'\x89UgG$\xcbC\xed\x92\x0bG\xca\xed\x15F_\x00\x00\x00\x00\x00\x00\x00\x00\x80?\x00\x00'
       b'\x00\x80?\x00\x00\x00\x00\x00\x00\x00\x00\x00\x00\x00\x00\x00\x00\x00\x00\x00\x00\x00'
       b'\x00\x00\x00\x00\x00\x00\x00\x00\x00\x00\x00\x00\x00')
# a real ObjectUpdateCompressed payload (tests/proxy/test_object_manager.py); identity fields are replaced per message
_COMPRESSED = (
    b"\x12\x12\x10\xbf\x16XB~\x8f\xb4\xfb\x00\x1a\xcd\x9b\xe5\xd2\x04\x00\x00\t\x00\xcdG\x00\x00"
    b"\x03\x00\x00\x00\x1cB\x00\x00\x1cB\xcd\xcc\xcc=\xedG,"
    b"B\x9e\xb1\x9eBff\xa0A\x00\x00\x00\x00\x00\x00\x00\x00["
    b"\x8b\xf8\xbe\xc0\x00\x00\x00k\x9b\xc4\xfe3\nOa\xbb\xe2\xe4\xb2C\xac7\xbd\x00\x00\x00\x00"
    b"\x00\x00\x00\x00\x00\x00\xa2=\x010\x00\x11\x00\x00\x00\x89UgG$\xcbC\xed\x92\x0bG\xca\xed"
    b"\x15F_@ \x00\x00\x00\x00d\x96\x00\x00\x00\x00\x00\x00\x00\x00\x00\x00\x00\x00\x00\x00\x00"
    b"\x00?\x00\x00\x00\x1c\x9fJoI\x8dH\xa0\x9d\xc4&''\x19=g\x00\x00\x00\x003\x00ff\x86\xbf"
    b"\x00ff\x86?\x00\x00\x00\x00\x00\x00\x00\x00\x00\x00\x00\x00\x00\x00\x00\x00\x89UgG$\xcbC"
    b"\xed\x92\x0bG\xca\xed\x15F_\x10\x00\x00\x003\x00\x01\x01\x00\x00\x00\x00\xdb\x0f\xc9@\xa6"
    b"\x9b\xc4="
)


class Env:
    """process-wide pieces shared by all worlds of one driver run"""

    def __init__(self):
        from hippolyzer.lib.base.message.udpdeserializer import UDPMessageDeserializer
        from hippolyzer.lib.base.message.udpserializer import UDPMessageSerializer
        from hippolyzer.lib.base.templates import ObjectUpdateCompressedDataSerializer
        import hippolyzer.lib.base.serialization as se
        from hippolyzer.lib.proxy.addons import AddonManager
        from hippolyzer.lib.proxy.sessions import SessionManager
        from hippolyzer.lib.proxy.settings import ProxySettings
        import hippolyzer.lib.proxy.inventory_manager as pim
        self.loop = _VirtualLoop()
        asyncio.set_event_loop(self.loop)
        # handler exceptions are swallowed and logged by the event dispatcher: the log is an observable of this property
        self._log_state = (logging.root.manager.disable, logging.root.level)
        logging.disable(logging.NOTSET)
        if logging.root.level > logging.WARNING or logging.root.level == logging.NOTSET:
            logging.root.setLevel(logging.WARNING)
        # every new proxy session scans $HOME for viewer inventory caches; irrelevant here, and it must not depend on the machine
        self._pim, self._pim_iter = pim, pim.iter_viewer_cache_dirs
        pim.iter_viewer_cache_dirs = lambda: iter(())
        self.sm = SessionManager(ProxySettings())
        AddonManager.init([], self.sm, [], swallow_addon_exceptions=False)
        self.transport = _Transport()
        self.ser, self.de = UDPMessageSerializer(), UDPMessageDeserializer()
        self.se = se
        self.comp_template = ObjectUpdateCompressedDataSerializer.TEMPLATE
        self.comp_base = se.BufferReader("<", _COMPRESSED).read(self.comp_template)
        self._comp_bytes = {}
        self.full_vars = None
        self.catcher = _LogCatcher()
        logging.getLogger().addHandler(self.catcher)

    def spin(self):
        """one iteration of the event loop: what happens between two datagrams (future done-callbacks run)"""
        self.loop.call_soon(self.loop.stop)
        self.loop.run_forever()

    def close(self):
        from hippolyzer.lib.proxy.addons import AddonManager
        logging.getLogger().removeHandler(self.catcher)
        logging.disable(self._log_state[0])
        logging.root.setLevel(self._log_state[1])
        self._pim.iter_viewer_cache_dirs = self._pim_iter
        try:
            AddonManager.shutdown()
            AddonManager.FRESH_ADDON_MODULES.clear()
        except Exception:  # noqa
            pass
        try:
            self.loop.close()
        except Exception:  # noqa
            pass
        asyncio.set_event_loop(None)


_UUIDS = {}


def full_uuid(fi):
    u = _UUIDS.get(fi)
    if u is None:
        from hippolyzer.lib.base.datatypes import UUID
        u = _UUIDS[fi] = UUID(int=0xC1400000 + fi + 1)
    return u


class Failure(Exception):
    def __init__(self, key, clause, observed):
        super().__init__(key)
        self.key, self.clause, self.observed = key, clause, observed
        self.hazards = ()


# situations in which the unchanged tree is known to break one clause (reported as findings, each under its own key):
HAZARD_CLAUSE = {
    # a full / compressed update for an object that earlier moved into a region the session does not know:
    # _update_existing_object calls old_region_state.untrack_object() / new_region_state.handle_object_reparented() on None
    "regionless-object-updated": "raise",
    # KillObject for a local id that is not tracked while a seated avatar names it as parent: _kill_object_by_local_id pops the
    # orphan list, skips the avatar and never files it again
    "avatar-orphan-of-unknown-killed": "orphans",
    # one update message whose earlier block moves an object off a local id and whose later block announces another object under
    # it, with a request pending for that id: resolve_futures calls set_result on the future cancel_futures has just cancelled
    "local-id-reused-within-message": "raise",
}
DEFAULT_CONFIG = {"allow_auto": True, "auto_missing": False, "vo_cache": False, "cache": {}}


class World:
    """one proxy session with two registered regions, the model next to it, and the oracle"""

    def __init__(self, env, config):
        self.env = env
        self.config = config
        sm = env.sm
        sm.settings.ALLOW_AUTO_REQUEST_OBJECTS = bool(config["allow_auto"])
        sm.settings.AUTOMATICALLY_REQUEST_MISSING_OBJECTS = bool(config["auto_missing"])
        sm.settings.USE_VIEWER_OBJECT_CACHE = bool(config["vo_cache"])
        from hippolyzer.lib.base.datatypes import UUID
        self.session = sm.create_session({
            "session_id": UUID(int=11), "secure_session_id": UUID(int=12), "agent_id": UUID(int=13),
            "circuit_code": 1234, "sim_ip": "10.0.0.1", "sim_port": 13000,
            "region_x": 0, "region_y": HANDLES[0], "seed_capability": "https://test.localhost:4/foo"})
        self.session.register_region(("10.0.0.2", 13001), handle=HANDLES[1], seed_url="https://test.localhost:4/r1")
        self.regions = [self.session.region_by_handle(h) for h in HANDLES]
        self.client_addr = ("127.0.0.1", 1)
        self.cache = {int(k): tuple(v) for k, v in config["cache"].items()}
        for r in (0, 1):
            self._bring_up(r)
        self.session.main_region = self.regions[0]
        self.model = Model(self.cache)
        self.futs = []            # pending requests: [region, local, type, future]
        self.requested = {}       # (region, local) -> request types registered since the region last came up
        self.n = 0                # message counter: makes every payload differ from the previous one
        self.steps = []           # concrete history since this world was created
        env.catcher.records.clear()

    def close(self):
        for region in self.regions:
            try:
                region.objects.clear()          # cancels debounce timers
            except Exception:  # noqa
                pass
        try:
            self.env.sm.close_session(self.session)
        except Exception:  # noqa
            pass
        self.env.spin()
        self.env.catcher.records.clear()

    def _bring_up(self, r):
        from hippolyzer.lib.base.datatypes import UUID
        from hippolyzer.lib.proxy.vocache import RegionViewerObjectCacheChain, RegionViewerObjectCache, ViewerObjectCacheEntry
        region = self.regions[r]
        self.session.open_circuit(self.client_addr, region.circuit_addr, self.env.transport)
        self.session.objects.track_region_objects(region.handle)
        entries = [ViewerObjectCacheEntry(local_id=local, crc=CACHE_CRC,
                                          data=self._compressed(local, fi, parent, CACHE_CRC, 0.0))
                   for local, (fi, parent) in sorted(self.cache.items())]
        region.objects.object_cache = RegionViewerObjectCacheChain([RegionViewerObjectCache(UUID(int=77), entries)])

    # -- messages, built the way the simulator would send them and passed through the real (de)serializer
    def _pcode(self, fi):
        from hippolyzer.lib.base.templates import PCode
        return PCode.AVATAR if is_avatar(fi) else PCode.PRIMITIVE

    def _handle_of(self, r):
        return UNKNOWN_HANDLE if r == 2 else HANDLES[r]

    def _wire(self, msg):
        return self.env.de.deserialize(self.env.ser.serialize(msg))

    def _compressed(self, local, fi, parent, crc, z):
        """ObjectUpdateCompressed payload: written once per (pcode, has parent) by the real template serializer, then the
        identity fields are patched at their wire offsets (header "<16sIBBIBB3f3f3fI16s", optional 3f angular velocity, then the
        optional parent id) - and read back with the real template when a variant is first made."""
        import struct
        from hippolyzer.lib.base.datatypes import Vector3
        from hippolyzer.lib.base.templates import CompressedFlags
        env = self.env
        variant = (is_avatar(fi), bool(parent))
        base = env._comp_bytes.get(variant)
        first = base is None
        if first:
            d = dict(env.comp_base)
            d["PCode"], d["State"] = self._pcode(fi), 0
            flags = d["Flags"] & ~CompressedFlags.PARENT_ID
            if parent:
                flags |= CompressedFlags.PARENT_ID
            d["ParentID"] = parent or None
            d["Flags"] = flags
            w = env.se.BufferWriter("<")
            w.write(env.comp_template, d)
            base = env._comp_bytes[variant] = bytes(w.copy_buffer())
        buf = bytearray(base)
        buf[0:16] = full_uuid(fi).bytes
        struct.pack_into("<I", buf, 16, local)
        struct.pack_into("<I", buf, 22, crc)
        struct.pack_into("<3f", buf, 40, 1.0, 2.0, z)
        if parent:
            flags = struct.unpack_from("<I", buf, 64)[0]
            struct.pack_into("<I", buf, 84 + (12 if flags & int(CompressedFlags.ANGULAR_VELOCITY) else 0), parent)
        out = bytes(buf)
        if first:
            back = env.se.BufferReader("<", out).read(env.comp_template)
            assert (back["FullID"], back["ID"], back["CRC"], back["ParentID"] or 0, back["PCode"]) == \
                (full_uuid(fi), local, crc, parent, self._pcode(fi)) and back["Position"] == Vector3(1.0, 2.0, z), back
        return out

    def _msg_update(self, kind, r, blocks, crc):
        """ObjectUpdate / ObjectUpdateCompressed as the real deserializer hands them to the handlers: one message of each kind is
        passed through the real serializer + deserializer, its ObjectData variables are the template for all later blocks"""
        import struct
        from hippolyzer.lib.base.datatypes import Vector3
        from hippolyzer.lib.base.message.message import Block, Message
        env = self.env
        handle = self._handle_of(r)
        z = float(self.n % 4000) / 8.0
        if kind == "comp":
            return Message("ObjectUpdateCompressed", Block("RegionData", RegionHandle=handle, TimeDilation=65535),
                           *[Block("ObjectData", UpdateFlags=0, Data=self._compressed(local, fi, parent, crc, z))
                             for (local, fi, parent) in blocks])
        if env.full_vars is None:
            b = Block("ObjectData", ID=1, FullID=full_uuid(0), PCode=self._pcode(0), CRC=1, Scale=Vector3(0.5, 0.5, 0.5),
                      UpdateFlags=268568894, PathCurve=16, ParentID=0, ProfileCurve=1, PathScaleX=100, PathScaleY=100,
                      NameValue=None, TextureEntry=_TE, TextColor=b'\x00\x00\x00\x00', ExtraParams=b'\x00', fill_missing=True)
            msg = Message("ObjectUpdate", Block("RegionData", RegionHandle=handle, TimeDilation=123), b)
            msg["ObjectData"][0].serialize_var("ObjectData", (60, {
                'Position': (1.0, 2.0, 3.0), 'Velocity': (0.0, 0.0, 0.0), 'Acceleration': (0.0, 0.0, 0.0),
                'Rotation': (0.0, 0.0, 0.0, 1.0), 'AngularVelocity': (0.0, 0.0, 0.0)}))
            back = self._wire(msg)
            env.full_vars = dict(back["ObjectData"][0].items())
            env.region_vars = dict(back["RegionData"][0].items())
            assert len(env.full_vars["ObjectData"]) == 60 and struct.unpack_from("<3f", env.full_vars["ObjectData"], 0) == (1.0, 2.0, 3.0)
        out = []
        for (local, fi, parent) in blocks:
            v = dict(env.full_vars)
            v["ID"], v["FullID"], v["PCode"], v["CRC"], v["ParentID"] = local, full_uuid(fi), int(self._pcode(fi)), crc, parent
            v["ObjectData"] = struct.pack("<3f", 1.0, 2.0, z) + env.full_vars["ObjectData"][12:]
            out.append(Block("ObjectData", **v))
        rv = dict(env.region_vars)
        rv["RegionHandle"] = handle
        return Message("ObjectUpdate", Block("RegionData", **rv), *out)

    def _msg_terse(self, r, local):
        from hippolyzer.lib.base.datatypes import Vector3, Quaternion
        from hippolyzer.lib.base.message.message import Block, Message
        z = float(self.n % 4000) / 8.0
        return self._wire(Message(
            'ImprovedTerseObjectUpdate', Block('RegionData', RegionHandle=self._handle_of(r), TimeDilation=65345),
            Block('ObjectData', Data_={'ID': local, 'State': 0, 'FootCollisionPlane': None, 'Position': Vector3(-2, -3, z),
                                       'Velocity': Vector3(0, 0, 0), 'Acceleration': Vector3(0, 0, 0), 'Rotation': Quaternion(0, 0, 0, 1),
                                       'AngularVelocity': Vector3(0, 0, 0)}, TextureEntry_=None)))

    def _msg_cached(self, r, local, crc):
        from hippolyzer.lib.base.message.message import Block, Message
        return self._wire(Message('ObjectUpdateCached', Block("RegionData", TimeDilation=102, RegionHandle=self._handle_of(r)),
                                  Block("ObjectData", ID=local, CRC=crc, UpdateFlags=4000 + self.n % 64)))

    def _msg_props(self, fi, family):
        from hippolyzer.lib.base.message.message import Block, Message
        name = "n%d" % self.n
        if family:
            return self._wire(Message("ObjectPropertiesFamily", Block("ObjectData", ObjectID=full_uuid(fi), Name=name, fill_missing=True)))
        return self._wire(Message("ObjectProperties", Block("ObjectData", ObjectID=full_uuid(fi), Name=name, TextureID=b"", fill_missing=True)))

    def _msg_kill(self, locals_):
        from hippolyzer.lib.base.message.message import Block, Message
        return self._wire(Message("KillObject", *[Block("ObjectData", ID=local) for local in locals_]))

    def _deliver(self, msg, r):
        """what InterceptingLLUDPProxyProtocol.handle_proxied_packet does with a simulator message: session-level, then region-level"""
        region = self.regions[0 if r == 2 else r]
        msg.sender = region.circuit_addr
        raised = None
        try:
            self.session.message_handler.handle(msg)
            region.message_handler.handle(msg)
        except Exception as e:  # noqa
            raised = e
        return raised

    # -- one step of a history
    def step(self, step):
        """run one step on the real code and on the model, then check everything; raises Failure"""
        import contextlib
        import io
        model = self.model
        self.n += 1
        self.steps.append(step)
        kind = step[0]
        crc = 1000 + self.n
        raised = None
        pre_keys = None
        if kind in ("upd", "kill", "down"):
            # for classifying a request left pending: did the region ever see requests of both types for one local id?
            pre_keys = [sorted(self.regions[r].objects.state._object_futures.keys()) for r in (0, 1)]
        if kind == "upd":
            raised = self._deliver(self._msg_update(step[1], step[2], step[3], crc), step[2])
        elif kind == "kill":
            raised = self._deliver(self._msg_kill(step[2]), step[1])
        elif kind == "down":
            self.requested = {k: v for k, v in self.requested.items() if k[0] != step[1]}
            try:
                self.regions[step[1]].mark_dead()           # CloseCircuit / DisableSimulator
            except Exception as e:  # noqa
                raised = e
        elif kind == "up":
            try:
                self._bring_up(step[1])                     # UseCircuitCode + RegionHandshake
            except Exception as e:  # noqa
                raised = e
        elif kind == "terse":
            raised = self._deliver(self._msg_terse(step[1], step[2]), step[1])
        elif kind == "cached":
            r, local, mode = step[1], step[2], step[3]
            if mode == "hit":
                c = CACHE_CRC
            elif mode == "match":
                c = model.objs[model.live(r)[local]][3]
            else:
                c = 5                                        # never used as an object's CRC, never cached
            raised = self._deliver(self._msg_cached(r, local, c), r)
        elif kind == "props":
            v = model.objs.get(step[1])
            raised = self._deliver(self._msg_props(step[1], step[2]), v[0] if v and v[0] is not None else 0)
        elif kind == "req":
            r, local, typ = step[1], step[2], step[3]
            try:
                mgr = self.regions[r].objects
                futs = mgr.request_objects(local) if typ == UPDATE else mgr.request_object_properties(local)
                for f in futs:
                    self.futs.append([r, local, typ, f])
                self.requested.setdefault((r, local), set()).add(typ)
            except Exception as e:  # noqa
                raised = e
        elif kind == "tick":
            self.env.loop.vt += 0.3                          # past the 0.2 s debounce of request_missed_cached_objects_soon
            with contextlib.redirect_stdout(io.StringIO()):
                self.env.spin()
        else:
            raise ValueError(step)
        self.env.spin()
        eff = model.apply(step, crc)
        self._check(eff, raised, pre_keys)

    # -- the oracle
    def _check(self, eff, raised, pre_keys):
        try:
            self._check_inner(eff, raised, pre_keys)
        except Failure as f:
            f.hazards = tuple(sorted(eff.hazards))
            if "both-request-types" in f.key:
                f.hazards += ("both-request-types",)
            raise

    def _key(self, clause):
        """a failure of exactly the clause a documented hazard is known to break, at a step that touches the hazard, gets its own key"""
        for h in sorted(self._hazards):
            if HAZARD_CLAUSE.get(h) == clause:
                return h + "/" + clause
        return clause

    def _check_inner(self, eff, raised, pre_keys):
        import traceback
        self._hazards = eff.hazards
        recs, self.env.catcher.records[:] = list(self.env.catcher.records), []
        # no handler raises (the event dispatcher swallows and logs handler exceptions)
        errs = []
        if raised is not None:
            errs.append("%s: %s" % (type(raised).__name__, raised))
        clobber = None
        for rec in recs:
            if rec.exc_info and rec.exc_info[1] is not None:
                tb = traceback.extract_tb(rec.exc_info[2])
                where = "%s:%s" % (tb[-1].filename.rsplit("/", 1)[-1], tb[-1].name) if tb else "?"
                errs.append("%s: %s at %s (%s)" % (type(rec.exc_info[1]).__name__, rec.exc_info[1], where, rec.getMessage()[:80]))
            elif rec.getMessage().startswith("Clobbering existing object"):
                clobber = rec.getMessage()[:120]
            else:
                errs.append("logged error: " + rec.getMessage()[:160])
        if errs:
            raise Failure(self._key("raise"), "no handler raises", "; ".join(errs[:3]))
        if clobber:
            raise Failure(self._key("index/clobber"), "an object was tracked under a local id that another live object still held "
                          "(the history never gives one local id to two live objects)", clobber)
        try:
            self._check_graph()
        except ReferenceError as e:
            raise Failure(self._key("links/dangling"), "Parent/Children links only point at tracked objects", "dead weak reference: %s" % e)
        self._check_futures(eff, pre_keys)

    def _check_graph(self):
        model, world = self.model, self.session.objects
        expected_full = {}
        for r in (0, 1):
            region = self.regions[r]
            handle = HANDLES[r]
            state = region.objects.state
            live = model.live(r)
            lookup = state.localid_lookup
            if set(lookup) != set(live):
                raise Failure(self._key("index/live-set"), "the local-id index holds exactly the objects announced and not since killed or unloaded",
                              "region %d: tracked local ids %s, reference %s" % (handle, sorted(lookup), sorted(live)))
            if (world._get_region_manager(handle) is not None) != model.tracked[r]:
                raise Failure(self._key("index/region"), "a region's object manager is registered with the world exactly while the region is up",
                              "region %d registered=%s, reference %s" % (handle, world._get_region_manager(handle) is not None, model.tracked[r]))
            orphans = model.orphans(r)
            for local, fi in live.items():
                obj = lookup[local]
                _, _, parent, _ = model.objs[fi]
                expected_full[fi] = obj
                if obj.LocalID != local or obj.FullID != full_uuid(fi) or obj.RegionHandle != handle:
                    raise Failure(self._key("index/identity"), "an object is filed under its own local id in its own region",
                                  "region %d local %d holds object LocalID=%r FullID=%s RegionHandle=%r, reference full id %s"
                                  % (handle, local, obj.LocalID, obj.FullID, obj.RegionHandle, full_uuid(fi)))
                if obj.ParentID != parent:
                    raise Failure(self._key("index/identity"), "an object names the parent last announced for it",
                                  "region %d local %d: ParentID %r, reference %d" % (handle, local, obj.ParentID, parent))
                if world.lookup_fullid(full_uuid(fi)) is not obj or region.objects.lookup_fullid(full_uuid(fi)) is not obj \
                        or region.objects.lookup_localid(local) is not obj:
                    raise Failure(self._key("index/agreement"), "lookup by local id and lookup by full id give the same object",
                                  "region %d local %d / full id %s" % (handle, local, full_uuid(fi)))
                # parent -> children
                want = model.children(r, local)
                if sorted(obj.ChildIDs) != want:
                    raise Failure(self._key("links/children"), "an object's children are exactly the tracked objects naming it as parent",
                                  "region %d local %d: ChildIDs %s, reference %s" % (handle, local, list(obj.ChildIDs), want))
                if len(obj.Children) != len(obj.ChildIDs) or any(lookup.get(cid) is None or c.LocalID != cid or c.FullID != lookup[cid].FullID
                                                                 for cid, c in zip(obj.ChildIDs, obj.Children)):
                    raise Failure(self._key("links/children"), "Children and ChildIDs list the same tracked objects in the same order",
                                  "region %d local %d: ChildIDs %s, Children %s" % (handle, local, list(obj.ChildIDs), [c.LocalID for c in obj.Children]))
                # child -> parent
                if parent and parent in live:
                    if obj.Parent is None or obj.Parent.LocalID != parent or obj.Parent.FullID != lookup[parent].FullID:
                        raise Failure(self._key("links/parent"), "an object whose parent is tracked is linked to it",
                                      "region %d local %d names parent %d: Parent is %s" %
                                      (handle, local, parent, "None" if obj.Parent is None else "local %r" % obj.Parent.LocalID))
                elif obj.Parent is not None:
                    raise Failure(self._key("links/parent"), "an object without a tracked parent has no parent link",
                                  "region %d local %d (parent %d): Parent is local %r" % (handle, local, parent, obj.Parent.LocalID))
            actual = {k: sorted(v) for k, v in list(state._orphans.items()) if v}
            if actual != orphans:
                raise Failure(self._key("orphans"), "the orphan lists hold exactly the tracked objects whose named parent is not tracked",
                              "region %d: orphan lists %s, reference %s" % (handle, actual, orphans))
            if len(region.objects) != len(live):
                raise Failure(self._key("index/live-set"), "len(region.objects) counts the live objects", "region %d: %d vs %d" % (handle, len(region.objects), len(live)))
        for fi, v in model.objs.items():
            if v[0] is None:
                # moved into a region the session does not know: kept by full id only (test_object_moved_to_bad_region)
                obj = world.lookup_fullid(full_uuid(fi))
                if obj is None or obj.FullID != full_uuid(fi):
                    raise Failure(self._key("index/full-set"), "an object that moved to an unknown region stays known by full id",
                                  "full id %s not found" % full_uuid(fi))
                expected_full[fi] = obj
        actual_full = set(world._fullid_lookup.keys())
        want_full = {full_uuid(fi) for fi in expected_full}
        if actual_full != want_full or len(world) != len(want_full):
            raise Failure(self._key("index/full-set"), "the full-id index holds exactly the objects announced and not since killed or unloaded",
                          "full-id index %s, reference %s" % (sorted(str(u)[-2:] for u in actual_full), sorted(str(u)[-2:] for u in want_full)))
        for fi, obj in expected_full.items():
            if world._fullid_lookup[full_uuid(fi)] is not obj:
                raise Failure(self._key("index/agreement"), "lookup by local id and lookup by full id give the same object", "full id %s" % full_uuid(fi))
            # a region's own lookup by full id knows its own objects only (local ids are unique per region, not across regions)
            for r in (0, 1):
                got = self.regions[r].objects.lookup_fullid(full_uuid(fi))
                want = obj if model.objs[fi][0] == r else None
                if got is not want:
                    raise Failure(self._key("index/agreement"), "a region's lookup by full id gives that region's object, and nothing for an object of another region",
                                  "region %d asked for full id %s (an object of region %r): got %s"
                                  % (HANDLES[r], full_uuid(fi), model.objs[fi][0], "nothing" if got is None else "local %r of region %r" % (got.LocalID, got.RegionHandle)))

    def _check_futures(self, eff, pre_keys):
        keep = []
        for rec in self.futs:
            r, local, typ, fut = rec
            state = self.regions[r].objects.state
            must_finish = (r, local) in eff.cancelled or r in eff.cancel_region
            if must_finish:
                if not fut.done():
                    multi = pre_keys is not None and len({k[1] for k in pre_keys[r] if k[0] == local}) > 1
                    raise Failure("futures/left-pending" + ("/both-request-types" if multi else ""),
                                  "a pending request for a local id is cancelled when that object is killed, leaves the region or the region goes away",
                                  "%s request for region %d local %d still pending" % (typ, HANDLES[r], local))
                continue
            if (r, local, typ) in eff.resolved:
                obj = state.localid_lookup.get(local)
                if not fut.done() or fut.cancelled() or fut.exception() is not None or fut.result() is not obj:
                    raise Failure(self._key("futures/unresolved"), "a pending request is resolved with the object when the matching update / property reply arrives",
                                  "%s request for region %d local %d: %s" % (typ, HANDLES[r], local, "pending" if not fut.done() else "cancelled or wrong object"))
                continue
            if (r, local, typ) in eff.may and fut.done():
                if fut.cancelled() or fut.exception() is not None or fut.result() is not state.localid_lookup.get(local):
                    raise Failure(self._key("futures/unresolved"), "a request resolves with the object it asked for",
                                  "%s request for region %d local %d finished wrongly" % (typ, HANDLES[r], local))
                continue
            if fut.done():
                raise Failure(self._key("futures/spurious"), "a request stays pending until something happens to its local id",
                              "%s request for region %d local %d finished (%s) although nothing happened to that local id"
                              % (typ, HANDLES[r], local, "cancelled" if fut.cancelled() else "resolved"))
            keep.append(rec)
        self.futs = keep


# ------------------------------------------------------------------------------------------------------- histories and replay
def norm_step(step):
    """JSON lists -> the tuples the model works with"""
    step = list(step)
    kind = step[0]
    if kind == "upd":
        return ("upd", step[1], step[2], tuple(tuple(b) for b in step[3]))
    if kind == "kill":
        return ("kill", step[1], tuple(step[2]))
    return tuple(step)


def json_step(step):
    if step[0] == "upd":
        return ["upd", step[1], step[2], [list(b) for b in step[3]]]
    if step[0] == "kill":
        return ["kill", step[1], list(step[2])]
    return list(step)


def run_history(env, config, steps):
    """fresh session, run the steps; -> None, or (index of the failing step, Failure). A step the environment assumptions do not
    allow at that point ends the run without a verdict."""
    world = World(env, config)
    try:
        for i, step in enumerate(steps):
            if not world.model.enabled(step):
                return None
            try:
                world.step(step)
            except Failure as f:
                return i, f
        return None
    finally:
        world.close()


def shrink(env, config, steps, key, max_runs=150):
    """greedy one-step-at-a-time removal while the same clause still fails"""
    cur = list(steps)
    runs, i = 0, 0
    while i < len(cur) - 1 and runs < max_runs:
        cand = cur[:i] + cur[i + 1:]
        res = run_history(env, config, cand)
        runs += 1
        if res is not None and res[1].key == key:
            cur = cand[:res[0] + 1]
        else:
            i += 1
    return cur


def describe(step):
    kind = step[0]
    reg = lambda r: "unknown region %d" % UNKNOWN_HANDLE if r == 2 else "region %d" % HANDLES[r]  # noqa
    if kind == "upd":
        name = "ObjectUpdate" if step[1] == "full" else "ObjectUpdateCompressed"
        return "%s in %s: %s" % (name, reg(step[2]), "; ".join(
            "local %d = %s #%d, parent %d" % (l, "avatar" if is_avatar(f) else "prim", f, p) for (l, f, p) in step[3]))
    if kind == "kill":
        return "KillObject from %s: local %s" % (reg(step[1]), list(step[2]))
    if kind == "down":
        return "%s torn down (mark_dead)" % reg(step[1])
    if kind == "up":
        return "%s comes back (circuit + track_region_objects)" % reg(step[1])
    if kind == "terse":
        return "ImprovedTerseObjectUpdate in %s: local %d" % (reg(step[1]), step[2])
    if kind == "cached":
        return "ObjectUpdateCached in %s: local %d (%s)" % (reg(step[1]), step[2],
                                                           {"hit": "viewer cache has it", "match": "CRC of the tracked object", "miss": "unknown CRC"}[step[3]])
    if kind == "props":
        return "%s for #%d" % ("ObjectPropertiesFamily" if step[2] else "ObjectProperties", step[1])
    if kind == "req":
        return "%s(%d) on %s" % ("request_objects" if step[3] == UPDATE else "request_object_properties", step[2], reg(step[1]))
    return "0.3 s pass (debounce timers fire)"


class _Recorder:
    def __init__(self, env, saturate_at=25):
        self.env = env
        self.saturate_at = saturate_at
        self.failures = []
        self.shrunk_keys = set()
        self.counts = {}               # failure key -> occurrences (at most 2 are kept)
        self.hazard_failures = {}      # documented hazard -> failures seen at steps touching it

    def saturated(self, hazard):
        """a hazard that failed this often is a defect already reported: stop spending sessions on it"""
        return self.hazard_failures.get(hazard, 0) >= self.saturate_at

    def record(self, config, steps, f):
        self.counts[f.key] = self.counts.get(f.key, 0) + 1
        for h in f.hazards:
            self.hazard_failures[h] = self.hazard_failures.get(h, 0) + 1
        n = sum(1 for x in self.failures if x["key"] == f.key)
        if n >= 2:
            return
        steps = list(steps)
        if f.key not in self.shrunk_keys and len(self.shrunk_keys) < 12:
            self.shrunk_keys.add(f.key)
            steps = shrink(self.env, config, steps, f.key)
            res = run_history(self.env, config, steps)
            observed = res[1].observed if res is not None and res[1].key == f.key else f.observed
        else:
            observed = f.observed
        self.failures.append({"key": f.key, "clause": f.clause,
                              "input": {"config": config, "steps": [json_step(s) for s in steps], "readable": [describe(s) for s in steps]},
                              "observed": "after the last step: " + observed})


def replay(reg, rec):
    """vcheck --replay: run a recorded history on the current tree"""
    inp = rec["input"]
    env = Env()
    try:
        res = run_history(env, inp["config"], [norm_step(s) for s in inp["steps"]])
    finally:
        env.close()
    if res is None:
        return {"failed": False}
    return {"failed": True, "step": res[0], "key": res[1].key, "observed": res[1].observed}


# --------------------------------------------------------------------------------------------------- driver 1: transition coverage
def _perms(level):
    import itertools
    sigmas = [(0, 1, 2), (1, 0, 2)] if level in ("full", "partial") else [(0, 1, 2)]
    taus = [(0, 1, 2), (1, 0, 2)] if level in ("full", "partial") else [(0, 1, 2)]
    rhos = [dict(zip((0,) + LOCALS, (0,) + p)) for p in itertools.permutations(LOCALS)] if level == "full" else [{x: x for x in (0,) + LOCALS}]
    return [(s, r, t) for s in sigmas for r in rhos for t in taus]


def _perm_state(key, perm):
    sig, rho, tau = perm
    tracked, objs = key
    t2 = [None, None]
    t2[sig[0]], t2[sig[1]] = tracked[0], tracked[1]
    return (tuple(t2), tuple(sorted((tau[f], -1, 0, 0) if r == -1 else (tau[f], sig[r], rho[l], rho[p]) for (f, r, l, p) in objs)))


def _perm_letter(a, perm):
    sig, rho, tau = perm
    if a[0] == "upd":
        (l, f, p), = a[3]
        return ("u", sig[a[2]], rho[l], tau[f], rho[p])
    if a[0] == "kill":
        return ("k", sig[a[1]], rho[a[2][0]])
    return (a[0], sig[a[1]])


def _inv_perm(perm):
    sig, rho, tau = perm
    return (tuple(sig.index(i) for i in range(3)), {v: k for k, v in rho.items()}, tuple(tau.index(i) for i in range(3)))


def _perm_step(a, perm):
    """image of a structural message (alphabet form) under a renaming"""
    sig, rho, tau = perm
    if a[0] == "upd":
        (l, f, p), = a[3]
        return ("upd", None, sig[a[2]], ((rho[l], tau[f], rho[p]),))
    if a[0] == "kill":
        return ("kill", sig[a[1]], (rho[a[2][0]],))
    return (a[0], sig[a[1]])


def _model_from_key(key):
    m = Model()
    m.tracked = list(key[0])
    m.objs = {f: [None if r == -1 else r, l, p, 0] for (f, r, l, p) in key[1]}
    return m


def bounded_transitions(reg, tier, seed):
    rng = random.Random(seed * 7919 + 14)
    env = Env()
    rec = _Recorder(env)
    level = "full" if tier == "quick" else "partial"
    perms = _perms(level)
    alphabet = structural_alphabet()
    budget = 14000 if tier == "quick" else 200000
    max_len = 60
    canon_cache = {}          # scene graph key -> (class key = least image under the renamings, renamings that give it)
    class_info = {}           # class key -> [(message in the class representative's names, its orbit under the stabiliser, hazards,
    #                                          class of the successor | None if the scene graph does not change)]
    pending = {}              # class key -> message orbits not yet executed from a scene graph of the class
    hist = {}                 # class key -> shortest concrete history seen that reaches it
    unreachable = set()
    executed, distinct, samples = 0, set(), []
    pairs_done = moved = resets = skipped = 0

    def canon(k):
        c = canon_cache.get(k)
        if c is None:
            imgs = [(_perm_state(k, p), p) for p in perms]
            ck = min(i[0] for i in imgs)
            c = canon_cache[k] = (ck, [p for (img, p) in imgs if img == ck])
        return c

    def state_info(model):
        """-> (class key, its letters, renaming from the class representative's names to this scene graph's names)"""
        ck, mins = canon(model.key())
        letters = class_info.get(ck)
        if letters is None:
            rep = _model_from_key(ck)
            stab = canon(ck)[1]
            letters = []
            for a in alphabet:
                if rep.enabled(a):
                    m2 = rep.copy()
                    eff = m2.apply(a)
                    k2 = m2.key()
                    letters.append((a, min(_perm_letter(a, p) for p in stab), tuple(sorted(eff.hazards)), canon(k2)[0] if k2 != ck else None))
            class_info[ck] = letters
            pending[ck] = {ca for _, ca, _, _ in letters}
        return ck, letters, _inv_perm(mins[0])

    def decoration(world):
        model = world.model
        live = [(v[0], v[1], f) for f, v in sorted(model.objs.items()) if v[0] is not None]
        roll = rng.random()
        r, local = rng.choice((0, 1)), rng.choice(LOCALS)
        if live and rng.random() < 0.7:
            r, local, _ = rng.choice(live)
        if roll < 0.45:
            typ = rng.choice((UPDATE, PROPERTIES))
            if rec.saturated("both-request-types") and world.requested.get((r, local), {typ}) != {typ}:
                typ = sorted(world.requested[(r, local)])[0]
            return ("req", r, local, typ)
        if roll < 0.6:
            return ("terse", r, local)
        if roll < 0.75:
            st = ("cached", r, local, rng.choice(("match", "miss")))
            return st if model.enabled(st) else ("cached", r, local, "miss")
        if roll < 0.95:
            return ("props", rng.randrange(N_FULL), rng.random() < 0.3)
        return ("tick",)

    def concrete(a, back):
        a = _perm_step(a, back)
        return ("upd", rng.choice(("full", "comp")), a[2], a[3]) if a[0] == "upd" else a

    def run(world, steps):
        """-> True if all steps passed; a failure is recorded and the session is spent"""
        nonlocal executed
        for st in steps:
            executed += 1
            distinct.add((world.model.key(), st))
            try:
                world.step(st)
            except Failure as f:
                rec.record(DEFAULT_CONFIG, world.steps, f)
                return False
        return True

    world = None
    complete = False
    try:
        while executed < budget:
            cands, moves = [], []
            if world is not None and len(world.steps) < max_len:
                ck, letters, back = state_info(world.model)
                todo = pending[ck]
                for (a, ca, hz, ck2) in letters:
                    if ca in todo:
                        if hz and any(rec.saturated(h) for h in hz):
                            todo.discard(ca)        # the defect behind this hazard is reported; do not spend a session per pair on it
                            skipped += 1
                        else:
                            cands.append((a, ca))
                if not cands:
                    # nothing left to try here: one message that leads to a scene graph with unexecuted messages, if there is one
                    moves = [a for (a, ca, hz, ck2) in letters if ck2 is not None and not hz and pending.get(ck2, True)]
            if cands:
                a, ca = cands[rng.randrange(len(cands))]
                todo.discard(ca)
                steps = [concrete(a, back)]
                assert world.model.enabled(steps[0]), steps
                if rng.random() < 0.15:
                    steps.insert(0, decoration(world))
                if not run(world, steps):
                    world.close()
                    world = None
                    continue
                pairs_done += 1
                ck2 = canon(world.model.key())[0]
                if ck2 not in hist or len(world.steps) < len(hist[ck2]):
                    hist[ck2] = list(world.steps)
                if len(samples) < 3 and len(world.steps) == 6:
                    samples.append([describe(s) for s in world.steps])
                continue
            if moves:
                moved += 1
                if not run(world, [concrete(moves[rng.randrange(len(moves))], back)]):
                    world.close()
                    world = None
                continue
            # fresh session; go to the nearest class that still has unexecuted messages
            if world is not None:
                world.close()
            world = World(env, DEFAULT_CONFIG)
            resets += 1
            ck0 = state_info(world.model)[0]
            hist.setdefault(ck0, [])
            if pending[ck0]:
                continue
            targets = [(len(h), ck) for ck, h in hist.items() if pending.get(ck) and ck not in unreachable]
            if not targets:
                complete = True
                break
            _, target = min(targets)
            for st in hist[target]:
                if not world.model.enabled(st):
                    unreachable.add(target)
                    break
                executed += 1
                try:
                    world.step(st)
                except Failure:                     # recorded when it was first seen
                    unreachable.add(target)
                    break
            if target in unreachable:
                world.close()
                world = None
    finally:
        if world is not None:
            world.close()
        env.close()
    remaining = sum(len(v) for ck, v in pending.items() if ck not in unreachable)
    return {"name": "scene-graph-transitions", "evaluations": executed, "distinct_nontrivial": len(distinct),
            "rule": "every (abstract scene graph, enabled message) pair over the universe below, up to renaming (%s), is executed once on the "
                    "real proxy session in sessions of <= %d messages (15%% of the steps are preceded by a request / terse / cached / property "
                    "message); after every message the whole tracked world is compared with the scene graph. Pairs touching a hazard whose "
                    "defect has already failed 25 times are skipped (pairs_skipped). distinct = distinct (scene graph before, message)" %
                    ({"full": "regions swapped, local ids permuted, the two prims swapped", "partial": "regions swapped, the two prims swapped"}[level], max_len),
            "bounded": True,
            "bounds": {"local_ids": list(LOCALS), "full_ids": "2 prims + 1 avatar", "regions": "2 known + 1 unknown handle, teardown / re-handshake",
                       "messages": len(alphabet), "classes_seen": len(pending), "pairs_executed": pairs_done, "pairs_left": remaining,
                       "pairs_skipped": skipped, "complete": complete, "step_budget": budget, "sessions": resets, "connecting_steps": moved,
                       "failures_by_key": dict(sorted(rec.counts.items()))},
            "samples": samples, "failures": rec.failures}


# -------------------------------------------------------------------------------------------------------- driver 2: random walks
def _random_config(rng, locals_, n_full):
    cache = {}
    fulls = list(range(n_full))
    rng.shuffle(fulls)
    for local in rng.sample(list(locals_), rng.randrange(0, len(locals_))):
        parent = rng.choice([0] + [x for x in locals_ if x != local])
        cache[str(local)] = [fulls.pop(), parent]
    return {"allow_auto": rng.random() < 0.7, "auto_missing": rng.random() < 0.5, "vo_cache": rng.random() < 0.3, "cache": cache}


def _random_step(rng, world, locals_, n_full, rec):
    """one enabled step, or None"""
    model = world.model
    live = [(v[0], v[1], f) for f, v in sorted(model.objs.items()) if v[0] is not None]
    down = [r for r in (0, 1) if not model.tracked[r]]
    for _ in range(30):
        roll = rng.random()
        if down and roll < 0.25:
            st = ("up", rng.choice(down))
        elif roll < 0.42:
            # full / compressed update: new object, re-announcement, re-parenting, new local id, region crossing
            kind = rng.choice(("full", "comp"))
            r = rng.choice((0, 0, 1, 1, 0, 1, 2)) if rng.random() < 0.5 else rng.choice((0, 1))
            blocks = []
            for _b in range(1 if rng.random() < 0.8 else rng.randrange(2, 4)):
                fi = rng.randrange(n_full)
                cur = model.objs.get(fi)
                local = rng.choice(locals_)
                if cur is not None and cur[0] is not None and rng.random() < 0.55:
                    local = cur[1]
                    if rng.random() < 0.75 and r != 2:
                        r = cur[0] if not blocks else r
                pool = [0, 0] + [x for x in locals_ if x != local]
                if cur is not None and rng.random() < 0.3:
                    pool = [cur[2]] if cur[2] != local else [0]
                blocks.append((local, fi, rng.choice(pool)))
            st = ("upd", kind, r, tuple(blocks))
        elif roll < 0.58:
            r = rng.choice((0, 1))
            n = 1 if rng.random() < 0.85 else 2
            pool = [l for (rr, l, _) in live if rr == r] * 2 + list(locals_)
            st = ("kill", r, tuple(rng.sample(sorted(set(pool)), min(n, len(set(pool))))) if n > 1 else (rng.choice(pool),))
        elif roll < 0.64:
            st = ("terse", rng.choice((0, 1, 2)), rng.choice([l for (_, l, _) in live] + list(locals_)))
        elif roll < 0.73:
            r = rng.choice((0, 1))
            st = ("cached", r, rng.choice(locals_), rng.choice(("hit", "hit", "match", "match", "miss")))
        elif roll < 0.80:
            st = ("props", rng.randrange(n_full), rng.random() < 0.3)
        elif roll < 0.93:
            r, local = rng.choice((0, 1)), rng.choice(locals_)
            if live and rng.random() < 0.6:
                r, local, _ = rng.choice(live)
            st = ("req", r, local, rng.choice((UPDATE, PROPERTIES)))
        elif roll < 0.96:
            st = ("tick",)
        else:
            st = ("down", rng.choice((0, 1)))
        if not model.enabled(st):
            continue
        if rec.hazard_failures:
            # a hazard whose defect is already reported 25 times: keep the walks going instead of ending each of them on it
            hz = model.copy().apply(st).hazards
            if any(rec.saturated(h) for h in hz):
                continue
            if st[0] == "req" and rec.saturated("both-request-types") and world.requested.get((st[1], st[2]), {st[3]}) != {st[3]}:
                continue
        return st
    return None


def _many_orphans_case(env):
    """more objects waiting for an unknown parent than any small scenario has: 130 children, each naming a parent of its own that
    is announced only afterwards - every one of them is adopted when its parent appears. Returns a Failure or None."""
    world = World(env, {"allow_auto": False, "auto_missing": False, "vo_cache": False, "cache": {}})
    try:
        n = 130
        for i in range(n):
            raised = world._deliver(world._msg_update("full", 0, ((1000 + i, 10_000 + i, 5000 + i),), 1), 0)
            if raised is not None:
                return Failure("handler-raised", "no handler raises", "announcing child %d of %d raised %r" % (i, n, raised))
        for i in range(n):
            raised = world._deliver(world._msg_update("full", 0, ((5000 + i, 20_000 + i, 0),), 1), 0)
            if raised is not None:
                return Failure("handler-raised", "no handler raises", "announcing parent %d of %d raised %r" % (i, n, raised))
        state = world.regions[0].objects.state
        for i in range(n):
            child, parent = state.localid_lookup.get(1000 + i), state.localid_lookup.get(5000 + i)
            if child is None or parent is None:
                return Failure("index/live-set", "every announced object is tracked", "child %d / parent %d missing" % (1000 + i, 5000 + i))
            if child.Parent is None or child.Parent.LocalID != 5000 + i or list(parent.ChildIDs) != [1000 + i]:
                return Failure("orphans/adoption", "objects with an unknown parent are held as orphans and adopted when the parent appears",
                               "with %d parents outstanding at once: child %d names parent %d, its Parent link is %s, the parent's ChildIDs are %s"
                               % (n, 1000 + i, 5000 + i, "None" if child.Parent is None else child.Parent.LocalID, list(parent.ChildIDs)))
        if any(v for v in state._orphans.values()):
            return Failure("orphans", "the orphan lists are empty once every parent has appeared", "left over: %s" % dict(state._orphans))
    finally:
        world.close()
    return None


def _same_turn_case(env):
    """request, kill, region cleared and tracked again, second request for the same id - all before the event loop gets to run the
    first future's callbacks: the second request is a request like any other (resolved by the update, or cancelled by the next kill)"""
    for ending in ("update", "kill"):
        world = World(env, {"allow_auto": False, "auto_missing": False, "vo_cache": False, "cache": {}})
        try:
            region = world.regions[0]
            mgr = region.objects
            first = list(mgr.request_objects(5))
            raised = world._deliver(world._msg_kill((5,)), 0)
            if raised is not None:
                return Failure("handler-raised", "no handler raises", "KillObject for a requested, never announced id raised %r" % (raised,))
            mgr.clear()
            world.session.objects.track_region_objects(region.handle)
            second = list(mgr.request_objects(5))
            env.spin()
            if not all(f.done() for f in first):
                return Failure("futures/left-pending", "a pending request is cancelled when its id is killed", "the first request is still pending after KillObject")
            if any(f.done() for f in second):
                return Failure("futures/spurious", "a request stays pending until something happens to its local id",
                               "the second request (made after the region was cleared and tracked again) finished before anything happened to its id")
            if ending == "update":
                raised = world._deliver(world._msg_update("full", 0, ((5, 3, 0),), 1), 0)
                env.spin()
                obj = mgr.state.localid_lookup.get(5)
                if raised is not None or not all(f.done() and not f.cancelled() and f.result() is obj for f in second):
                    return Failure("futures/unresolved", "a pending request is resolved with the object when the matching update arrives",
                                   "request, kill, clear, re-track, request again within one loop turn; then the object is announced: the second request is %s (%r)"
                                   % ("pending" if not all(f.done() for f in second) else "cancelled or wrong", raised))
            else:
                raised = world._deliver(world._msg_kill((5,)), 0)
                env.spin()
                if raised is not None or not all(f.done() for f in second):
                    return Failure("futures/left-pending", "a pending request is cancelled when its id is killed",
                                   "request, kill, clear, re-track, request again within one loop turn; then a second KillObject: the second request is still pending (%r)" % (raised,))
        finally:
            world.close()
    return None


def bounded_random_walks(reg, tier, seed):
    rng = random.Random(seed * 104729 + 1414)
    env = Env()
    rec = _Recorder(env, saturate_at=5)
    walks = 150 if tier == "quick" else 2000
    locals_, n_full = (1, 2, 3, 4), 5
    executed, distinct, samples = 0, set(), []
    kinds = {}
    try:
        for _w in range(walks):
            config = _random_config(rng, locals_, n_full)
            world = World(env, config)
            try:
                for _ in range(rng.randrange(20, 70)):
                    st = _random_step(rng, world, locals_, n_full, rec)
                    if st is None:
                        break
                    pre = world.model.key()
                    executed += 1
                    distinct.add((pre, st))
                    kinds[st[0]] = kinds.get(st[0], 0) + 1
                    try:
                        world.step(st)
                        if st[0] == "down" and rng.random() < 0.6:
                            # ... and a request made for a region that is down is cancelled when the region is torn down again
                            for st2 in (("req", st[1], rng.choice(locals_), rng.choice((UPDATE, PROPERTIES))), ("down", st[1])):
                                if world.model.enabled(st2):
                                    executed += 1
                                    distinct.add((world.model.key(), st2))
                                    world.step(st2)
                    except Failure as f:
                        rec.record(config, world.steps, f)
                        break
                if len(samples) < 2:
                    samples.append([describe(s) for s in world.steps[:8]])
            finally:
                world.close()
        executed += 260
        distinct.add(("many-orphans",))
        try:
            f_ = _many_orphans_case(env)
        except Exception as ex:  # noqa
            f_ = Failure("harness/many-orphans", "scenario runs", "%s: %s" % (type(ex).__name__, ex))
        if f_ is not None:
            rec.failures.append({"key": f_.key, "clause": f_.clause, "input": {"scenario": "130 children, each with an unknown parent of its own, then the parents"},
                                 "observed": f_.observed})
        executed += 12
        distinct.add(("same-turn",))
        try:
            f2_ = _same_turn_case(env)
        except Exception as ex:  # noqa
            f2_ = Failure("harness/same-turn", "scenario runs", "%s: %s" % (type(ex).__name__, ex))
        if f2_ is not None:
            rec.failures.append({"key": f2_.key, "clause": f2_.clause, "input": {"scenario": "request, kill, clear, re-track, request again within one event-loop turn"},
                                 "observed": f2_.observed})
    finally:
        env.close()
    return {"name": "scene-graph-random-walks", "evaluations": executed, "distinct_nontrivial": len(distinct),
            "rule": "%d seeded sessions of 20..69 steps over full / compressed updates (1-3 blocks), kills (1-2 blocks), terse and cached updates "
                    "(viewer-cache hit, CRC match, miss), property replies, object / property requests, region teardown and re-handshake, timer "
                    "ticks; proxy settings and viewer cache contents vary per session; the whole tracked world and every pending request are "
                    "checked against the scene graph after every step. distinct = distinct (scene graph before, step)" % walks,
            "bounded": True, "bounds": {"walks": walks, "local_ids": list(locals_), "full_ids": "4 prims + 1 avatar (index 2)",
                                        "regions": "2 known + 1 unknown handle", "steps_by_kind": kinds,
                                        "failures_by_key": dict(sorted(rec.counts.items()))},
            "samples": samples, "failures": rec.failures}
