"""C08 - serialization combinators: read(write(v)) == v, exact framing, composable."""
from pyvc.contracts import ClassDecl, FnContract
from contracts.udp_common import reg_buffers, SE_REL

PID = "C08"

META = {
    "level": "other",
    "explanation": (
        "P (proved, for every value in the domain, every trailing byte string and both byte orders): for each integer primitive "
        "(U8..S64) and for representative instances of the byte/optional/tuple combinators (ByteArray over U8/U16 length, BytesFixed, "
        "BytesGreedy, OptionalPrefixed over a primitive and over a ByteArray, Tuple of primitives) a driver that writes a value with "
        "the real BufferWriter and reads it back with the real BufferReader from enc ++ rest returns the same value, leaves exactly "
        "rest unread, produced exactly calc_size bytes where a size is reported, and a value outside the length / range limit is "
        "rejected before anything is written. The combinator, reader and writer bodies are inlined from /repo (struct modelled "
        "exactly). BufferReader.seek/read_bytes bounds are proved as ADT contracts. These are instance lemmas (concrete child specs). "
        "With ABSTRACT children (any child spec; its own serialize / deserialize an external), the framing control of the containers is "
        "proved as ghost call-log obligations on the real bodies: Collection writes its length prefix (iff it has one) with the number of "
        "entries, then every entry exactly once with the entry spec, rejects a wrong fixed length, and reads back the prefix and then "
        "exactly that many (or the fixed number of) entries, each appended once; Template writes / reads every member once, in "
        "declaration order, looked up / stored under its own name (an absent optional member of a skip_missing template is left out); "
        "OptionalPrefixed writes the presence byte first and the value iff present, and reads the value iff the byte is set; IfPresent "
        "writes iff not None; Adapter sends exactly encode(val) to its child and returns decode of exactly what the child read, in the "
        "reader's plain-data mode. That these per-combinator facts compose to read(write(v)) == v for arbitrary spec trees is not stated as "
        "a lemma: whole-tree round trips are decided only in the bounded tier, which generates "
        "spec trees from the combinator grammar to depth 4 x values x endianness x pod x trailing bytes, and enumerates calc_size over "
        "every live spec object."),
    "trusted_base": [
        "struct pack/unpack: exact model for integer formats; F32/F64, str codecs, numpy, dataclass reflection: bounded tier only",
        "ParseContext construction: external (no effect on the bytes)",
        "switches / TypedBytes wrappers / Tuple / dataclass reflection: bounded tier only; Collection / Template / OptionalPrefixed / IfPresent / "
        "Adapter: control proved with abstract children, their values are unmodelled",
    ],
}

DRIVER = """def roundtrip(spec, v, rest, endian):
    w = se.BufferWriter(endian)
    w.write(spec, v)
    enc = w.copy_buffer()
    r = se.BufferReader(endian, enc + rest)
    out = r.read(spec)
    return (out, len(r), len(enc))
"""

REJECT = """def reject(spec, v, endian):
    w = se.BufferWriter(endian)
    w.write(spec, v)
    return len(w.buffer)
"""


def register(reg):
    import hippolyzer.lib.base.serialization as se
    from contracts import c08b_contracts
    c08b_contracts.register_p2(reg, PID)
    reg_buffers(reg)
    reg.add_class(ClassDecl("Reader", fields={"endianness": "Str", "pod": "Bool"}, ctor=(SE_REL, "Reader.__init__")))
    reg.classes["BufferReader"].supers = ["Reader"]
    ext = {"ParseContext": {"returns": "Opaque:Any", "ignore_args": True, "doc": "parse context (no effect on bytes)"}}
    common = dict(relpath=SE_REL, cls=None, prop=PID, consts={"se": se}, externals=ext, frame=None)

    def add(name, spec, vsort, dom, eq, size=None, exc="ValueError", rest_empty=False):
        for e in ("<", ">"):
            pv = {"spec": spec, "endian": e}
            ens = [eq, "result[1] == len(rest)"]
            if size is not None:
                ens.append(f"result[2] == {size}")
            req = [dom] + (["len(rest) == 0"] if rest_empty else [])
            reg.add_fn(FnContract(key=f"C08:{name}[{e}]/roundtrip", qualname="roundtrip", source=DRIVER,
                                  params={"v": vsort, "rest": "Bytes"}, param_names=["v", "rest"], param_values=pv,
                                  requires=req, ensures=ens, **common))
            if exc is None:
                continue
            # outside the limit: rejected, nothing written (the raise happens before any write)
            reg.add_fn(FnContract(key=f"C08:{name}[{e}]/reject", qualname="reject", source=REJECT,
                                  params={"v": vsort}, param_names=["v"], param_values=pv,
                                  raises={exc: f"not ({dom})"}, ensures=[f"{dom}"], **common))
    for p in ("U8", "S8", "U16", "S16", "U32", "S32", "U64", "S64"):
        prim = getattr(se, p)
        add(p, prim, "Int", f"{prim.min_val} <= v and v <= {prim.max_val}", "result[0] == v", size=prim.calc_size(), exc="struct.error")
    add("ByteArray(U8)", se.ByteArray(se.U8), "Bytes", "len(v) <= 255", "result[0] == v")
    add("ByteArray(U16)", se.ByteArray(se.U16), "Bytes", "len(v) <= 65535", "result[0] == v")
    for n in (0, 4, 16):
        add(f"BytesFixed({n})", se.BytesFixed(n), "Bytes", f"len(v) == {n}", "result[0] == v", size=n)
    add("BytesGreedy", se.BytesGreedy(), "Bytes", "True", "result[0] == v", rest_empty=True)
    add("OptionalPrefixed(U16)", se.OptionalPrefixed(se.U16), "Opt[Int]", "is_none(v) or (0 <= val(v) and val(v) <= 65535)", "result[0] == v",
        exc="struct.error")
    add("OptionalPrefixed(ByteArray(U8))", se.OptionalPrefixed(se.ByteArray(se.U8)), "Opt[Bytes]", "is_none(v) or len(val(v)) <= 255", "result[0] == v")
    add("Tuple(U8,U16)", se.Tuple(se.U8, se.U16), "Tuple[Int,Int]", "0 <= v[0] and v[0] <= 255 and 0 <= v[1] and v[1] <= 65535",
        "result[0][0] == v[0] and result[0][1] == v[1] and len(result[0]) == 2", size=3, exc="struct.error")
    add("Tuple(S32,ByteArray(U8))", se.Tuple(se.S32, se.ByteArray(se.U8)), "Tuple[Int,Bytes]",
        "-2147483648 <= v[0] and v[0] <= 2147483647 and len(v[1]) <= 255", "result[0][0] == v[0] and result[0][1] == v[1]", exc=None)

    # helpers.BitField (the packing core of se.BitField): exact over 64-bit vectors, schema instances
    import hippolyzer.lib.base.helpers as helpers
    BF_RT = "def bf_roundtrip(bf, a, b, c):\n    return bf.unpack(bf.pack({'a': a, 'b': b, 'c': c}))\n"
    BF_REJ = "def bf_pack(bf, a, b, c):\n    return bf.pack({'a': a, 'b': b, 'c': c})\n"
    for shift in (True, False):
        for widths in ((4, 4, 8), (1, 7, 24), (5, 3, 8)):
            bf = helpers.BitField({"a": widths[0], "b": widths[1], "c": widths[2]}, shift=shift)
            nm = f"BitField{widths}/shift={shift}"
            offs = (0, widths[0], widths[0] + widths[1])
            if shift:
                dom = " and ".join(f"0 <= {v} and {v} <= {2 ** w - 1}" for v, w in zip("abc", widths))
            else:
                dom = " and ".join(f"0 <= {v} and {v} <= {(2 ** w - 1) << o} and ({v} & {((2 ** w - 1) << o)}) == {v}" for v, w, o in zip("abc", widths, offs))
            bcommon = dict(relpath="hippolyzer/lib/base/helpers.py", cls=None, prop=PID, engine="fp", frame=None, param_values={"bf": bf},
                           params={"a": "Raw:32:u", "b": "Raw:32:u", "c": "Raw:32:u"}, param_names=["a", "b", "c"])
            reg.add_fn(FnContract(key=f"C08:{nm}/roundtrip", qualname="bf_roundtrip", source=BF_RT, requires=[dom],
                                  ensures=["result['a'] == a and result['b'] == b and result['c'] == c"], **bcommon))
            # a member wider than its field is rejected rather than bleeding into its neighbours
            reg.add_fn(FnContract(key=f"C08:{nm}/reject", qualname="bf_pack", source=BF_REJ,
                                  raises={"ValueError": f"not ({dom})"}, ensures=["True"], **bcommon))

    # BufferReader ADT
    rd = dict(relpath=SE_REL, cls="BufferReader", prop=PID)
    reg.add_fn(FnContract(key="hippolyzer.lib.base.serialization:BufferReader.read_bytes", qualname="BufferReader.read_bytes",
                          params={"num_bytes": "Int", "peek": "Bool", "to_bytes": "Bool", "check_len": "Bool"},
                          param_names=["num_bytes", "peek", "to_bytes", "check_len"], returns="Bytes",
                          requires=["self._len == len(self._buffer)", "0 <= self._pos", "num_bytes >= 0"],
                          raises={"ValueError": "self._pos + num_bytes > self._len and check_len"}, raise_preserves_state=True,
                          ensures=["result == old(self._buffer)[old(self._pos):old(self._pos) + num_bytes]",
                                   "implies(peek, self._pos == old(self._pos))", "implies(not peek, self._pos == old(self._pos) + num_bytes)",
                                   "implies(check_len, len(result) == num_bytes)"],
                          frame=["_pos"], **rd))
    reg.add_fn(FnContract(key="hippolyzer.lib.base.serialization:BufferReader.seek", qualname="BufferReader.seek",
                          params={"pos": "Int", "whence": "Int"}, param_names=["pos", "whence"],
                          consts={"SEEK_CUR": 1, "SEEK_END": 2, "SEEK_SET": 0},
                          requires=["self._len == len(self._buffer)"],
                          raises={"IOError": "ite(whence == 1, self._pos + pos, ite(whence == 2, self._len + pos, pos)) > self._len or "
                                             "ite(whence == 1, self._pos + pos, ite(whence == 2, self._len + pos, pos)) < 0"},
                          raise_preserves_state=True,
                          ensures=["self._pos == ite(whence == 1, old(self._pos) + pos, ite(whence == 2, self._len + pos, pos))",
                                   "0 <= self._pos and self._pos <= self._len"],
                          frame=["_pos"], **rd))


from contracts import c08_native
BOUNDED = [c08_native.bounded_spec_trees]
